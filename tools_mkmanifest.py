#!/usr/bin/env python3
"""Generates /verif/MANIFEST.json (kept valid against /root/.vp/MANIFEST.schema.json)."""
import json, subprocess

ENV = "GOFLAGS=-mod=mod GOPROXY=off GOSUMDB=off GOTOOLCHAIN=local"
checks = {
 "C01": ("exploration", "netsim", "Seeded search over all-honest signing worlds (protocol incl. CMP sign / presign+online / presign-full, FROST, FROST-Taproot, Doerner; n, t, identifier sets, fresh / refreshed / derived material, non-prefix signer subsets, message lengths, delivery schedule) on the simulated network; every returned signature is judged by an independent big-integer reference verifier (SEC1 ECDSA, BIP-340, Schnorr), all signers must agree and an all-honest session must complete at quiescence. Sampling, not enumeration.",
         "Trusts the reference verifiers (self-checked against BIP-340 vectors 0/1, BIP-32 vector 2 and the library on sample points); nil worker pool; CMP key material partly from a harness dealer, prime search replaced by fixture primes.",
         "deterministic simulation: seeded delivery schedules over real handlers, reference-verifier oracle", "DESIGN.md §4 C01"),
 "C02": ("exploration", "netsim", "Seeded search over key-generation worlds (all four protocol families, n in 2..7, every threshold, long / non-ASCII / adjacent identifiers, delivery schedules); oracle: identical group key, public-share table and auxiliary keys everywhere, own share matches the table, every (t+1)-subset (all or 24/64 drawn) reconstructs the key from secret shares and in the exponent, a t-subset does not.",
         "Reference Lagrange / secp256k1 over math/big; CMP keygen runs the real rounds with fixture safe primes (prime search itself not exercised).",
         "deterministic simulation: seeded schedules, independent reconstruction oracle", "DESIGN.md §4 C02"),
 "C03": ("fault_enumeration", "netsim+byzantine", "One deviating party per world whose outgoing traffic passes through a structure-aware mutator (field path x operator catalogue incl. values copied from other messages / a twin run, whole-payload substitution, header rewrites; naive or consistent-liar mode that adopts the honest view hash so later checks are reached). Every honest party's outcome is judged: not finished, error, or a value that the reference verifier accepts / that is consistent with every other honest finisher. The catalogue is sampled by seed; fired cells are reported.",
         "Exactly one deviating party; authenticated channels; a removed check that no catalogued alteration turns into a wrong result is invisible (soundness of individual proofs is C10, not applicable here).",
         "deterministic simulation with Byzantine-content fault injection", "DESIGN.md §4 C03"),
 "C04": ("fault_enumeration", "netsim+byzantine", "Same single-deviator worlds as C03 plus state-level deviations of a CMP presigner; the oracle inspects protocol.Error.Culprits at every honest party: self-detected errors name only the deviator, decode/verify failures name exactly it, relayed abort notices name their origin, an honest party is never named.",
         "One deviating party; TwoPartyHandler errors carry no culprit list.",
         "deterministic simulation with Byzantine fault injection, blame oracle", "DESIGN.md §4 C04"),
 "C05": ("fault_enumeration", "netsim+byzantine", "Malformed-delivery injector (absent/null/empty fields, type confusion, 1 MiB strings, deep nesting, huge length prefixes, truncated nested encodings, duplicate keys, indefinite-length items, header malformations, raw byte strings) at handler states reached by real session prefixes; monitors: panic on the calling goroutine, worker-process death (incl. out-of-memory under a 6 GiB address-space limit), hang watchdog, and the end-state rule (channel closed iff Result final).",
         "Sampled by seed in both tiers; worlds use a nil pool so panics on pool workers are not observed; memory exhaustion observed as process death under RLIMIT_AS.",
         "deterministic simulation with malformed-input fault injection and crash/hang/memory monitors", "DESIGN.md §4 C05"),
 "C06": ("fault_enumeration", "netsim+byzantine", "Split-brain equivocator: the cheater runs as twins A and A' with bit-identical randomness until its round k-1 messages, independent afterwards; A talks to one group of honest parties, A' to the other, both hear all honest traffic (every broadcast round k followed by another round, every bipartition, n in 3..5, drawn schedules). Oracle over recorded deliveries: no two honest parties handed different round-k payloads both finish; finishers hold byte-identical copies of non-final broadcasts.",
         "The equivocator does not additionally forge per-recipient view hashes; rounds whose payload is determined before the fork count as trivial.",
         "deterministic simulation with equivocation fault injection (forked twin)", "DESIGN.md §4 C06"),
 "C07": ("exploration", "netsim", "Each session is run twice with identical parameters and per-party randomness: FIFO fault-free (reference) and under a drawn policy (random, LIFO, slow/fast node, p2p-before-broadcast, per-link FIFO, partition/heal) with duplication, foreign-session injection and stale re-delivery after completion. Every party must complete with the reference run's result and emit the same messages.",
         "Causality only; per-party randomness is a function of (seed, case, party); message equality is judged on canonically re-encoded payloads (Go map order changes raw bytes legitimately).",
         "deterministic simulation: schedule exploration against an in-order reference run", "DESIGN.md §4 C07"),
 "C08": ("exploration", "histsim", "Histories keygen -> up to 3 refresh epochs -> sign, with value snapshots of every epoch; after each refresh: key unchanged, consistency conditions, every share changed (t>=1), mixed-epoch (t+1)-subsets do not reconstruct; signing with refreshed material succeeds; a session with a pre-refresh signer yields no signature.",
         "t=0 is excluded from the share-changed and stale-signer clauses (a degree-0 sharing has one possible share).",
         "deterministic simulation of operation histories with reference reconstruction oracle", "DESIGN.md §4 C08"),
 "C09": ("fault_enumeration", "netsim", "Lattice of session pairs differing in exactly one parameter (session id variants, protocol, adversarial participant sets with equal concatenation, threshold, CMP message / key epoch / presignature) plus replay under another sender's name: session tags must differ, every message of X injected at drawn points of Y must be rejected by CanAccept and leave Y's outcome and emissions equal to a control run.",
         "Only one curve exists, so the curve dimension is not exercised.",
         "deterministic simulation with cross-session message injection", "DESIGN.md §4 C09"),
 "C11": ("fault_enumeration", "netsim+rngfault", "Pairs of signing attempts differing in exactly one of message / signer set / session id / share (other party, refreshed, derived) / nothing, under a random source that is constant, all-zero, restarting identically, or honest; the same signer's nonce commitments (D_i, E_i on the wire; R.x of BIP-340 signatures) must differ.",
         "RNG faults are injected on the crypto/rand.Reader seam and the explicit reader of taproot.Sign.",
         "deterministic simulation with random-source fault injection", "DESIGN.md §4 C11"),
 "C13": ("fault_enumeration", "netsim(two-node link)", "Two nodes exchange the real internal/ot messages over a cbor link at every layer (random OT, correlated setup, correlated, extended, additive, multiply, multiply with setup reuse) on a boundary lattice of scalars and choice vectors, with at most one single-field alteration per world: no fault => defining relations / a*b exactly; fault => error on some side or still-correct product; never a panic.",
         "The all-inputs clause is a sampled workload over the boundary lattice; only the altered-message clause is decided by fault injection. Correlated and additive layers have no integrity check of their own: broken relations there under alteration are counted, not reported.",
         "deterministic simulation of a two-party exchange with message-alteration faults", "DESIGN.md §4 C13"),
 "C14": ("exploration", "histsim", "Histories keygen -> path of up to 3 {derive child, refresh} -> sign; chain keys equal and 32 bytes; every derivation equals an independent BIP-32 CKDpub (taproot: x-only with even-Y normalisation); derived material satisfies the consistency conditions and signs.",
         "Reference CKDpub self-checked against BIP-32 test vector 2.",
         "deterministic simulation of operation histories with independent BIP-32 oracle", "DESIGN.md §4 C14"),
 "C15": ("fault_enumeration", "histsim+disk", "Every result type is persisted with the documented encoder on a simulated disk, the holder crashes, a disk fault is injected (lost/torn/short write, bit flip, overwrite, zero-fill, structure-aware field corruption), the object is restored and used in the next session with peers that did not crash. No fault: equivalent object that works. Fault: error, or an object that keeps the property's validity rules and leads to no wrong result; never a panic or a silently empty object.",
         "A corruption yielding another syntactically valid value cannot be detected by restore (no integrity tag); then only 'no wrong result follows' is demanded.",
         "deterministic simulation with simulated disk faults and crash/restore", "DESIGN.md §4 C15"),
 "C17": ("exploration", "apisim", "Seeded API call sequences (Stop, abort notices, duplicates, late messages, Result, Listen, CanAccept) interposed at drawn points of live sessions against a sequential lifecycle model; and K=2..6 real client goroutines issuing seeded operation lists in waves against one handler in a race-detector build, histories checked with porcupine against the same model; races, panics and hung waves are violations.",
         "Operation sets are seeded, real-thread interleaving is not (failing concurrent cases are re-executed up to 5 times on replay); CMP excluded (seconds per call under the race detector; same handler code).",
         "deterministic call-sequence simulation + race detector + porcupine linearizability check", "DESIGN.md §4 C17"),
 "C18": ("exploration", "poolsim", "Cooperative seeded scheduler over verif-tagged yield points in pkg/pool inside a testing/synctest bubble (go1.26.8): exactly one parked goroutine proceeds per decision; W in 1..4 workers, 1..5 Parallelize/Search calls, then a probe that needs all W workers at once. Every call returns with the right results, no worker is lost, nil pool agrees, TearDown leaves nothing behind.",
         "One caller per pool (documented usage); windows between yields contain no shared-memory action, so an execution is a function of the decision trace.",
         "deterministic simulation: seeded cooperative goroutine scheduler (synctest + yield hooks)", "DESIGN.md §4 C18"),
 "C20": ("fault_enumeration", "netsim", "Every public start function is invoked at every party with one invalid parameter from the lattice (threshold, identifier list, signer set, message, key material, presignature), alone and in pairs: construction must return an error without panicking; if a handler is returned anyway the session is simulated and the consequences (panic, stall) are recorded in the violation.",
         "Invalid = the classes the property lists; individually valid but mutually inconsistent parameters are not demanded to be refused.",
         "deterministic simulation: parameter-lattice fault enumeration with simulated continuation", "DESIGN.md §4 C20"),
}
na = {
 "C10": "pure function of (statement, witness, context): no schedule, fault, crash or interleaving to simulate; deterministic simulation does not apply (DESIGN.md §6)",
 "C12": "arithmetic identities of Paillier/MtA over input lattices: pure functions of their inputs, nothing for a simulator to schedule or fault (DESIGN.md §6)",
 "C16": "conformance of stand-alone sign/verify routines to SEC1/BIP-340 for all inputs: pure functions of their inputs (DESIGN.md §6)",
 "C19": "injectivity of transcript framing and binding of commitments over input pairs: pure functions of their inputs (DESIGN.md §6)",
}
hooks = subprocess.run(["git","-C","/repo","log","--format=%h","--grep=^verif hooks"],capture_output=True,text=True).stdout.split()
m = {
 "version": 1,
 "setup_cmd": "cd /verif && ./setup.sh",
 "hooks": {
   "guard": "verif (Go build tag)",
   "enable": "go build -tags verif: ./check builds the harness and /repo with the tag on every invocation",
   "baseline_off_cmd": "cd /repo && GOFLAGS=-mod=mod GOPROXY=off GOSUMDB=off go test -vet=off -count=1 -timeout 25m ./...",
   "source_commits": sorted(hooks),
   "add_only": True,
 },
 "engines": [
   {"name":"netsim","path":"/verif/sim","serves_properties":["C01","C02","C07","C09","C20"],"kind_free_text":"deterministic simulated network + seeded scheduler + per-party DRBG over real protocol handlers; worker processes fed by a driver"},
   {"name":"netsim+byzantine","path":"/verif/props/byz.go + /verif/mut","serves_properties":["C03","C04","C05","C06"],"kind_free_text":"netsim with one deviating party: structure-aware cbor mutator, consistent-liar mode, split-brain twin"},
   {"name":"histsim","path":"/verif/props/c08.go c14.go c15.go","serves_properties":["C08","C14","C15"],"kind_free_text":"operation histories (keygen/refresh/derive/persist/crash/restore/sign) with a simulated disk; each step is a netsim world"},
   {"name":"apisim","path":"/verif/props/c17.go","serves_properties":["C17"],"kind_free_text":"API call sequences and concurrent clients in a race-detector build, porcupine lifecycle model"},
   {"name":"poolsim","path":"/verif/poolsim","serves_properties":["C18"],"kind_free_text":"cooperative seeded goroutine scheduler over yield hooks inside testing/synctest (go1.26.8)"},
 ],
 "checks": [],
 "not_applicable": [{"property_id":k,"reason":v} for k,v in na.items()],
 "notes": "All checks: ./check <ID> <quick|thorough>; env VERIF_SEED (default 1), VERIF_CASES, VERIF_WORKERS, VERIF_WALLCAP_S, VERIF_CASE_STALL_S (a worker silent for that long is killed: exit 2). Exit 0 = held, 1 = VIOLATION line(s), 2 = infrastructure trouble. Replay: ./check --replay <file>. Known / fixed findings: /verif/known_findings.json. See DESIGN.md.",
}
for pid,(lvl,eng,text,note,tech,ref) in checks.items():
    m["checks"].append({"property_id":pid,"quick_cmd":f"./check {pid} quick","thorough_cmd":f"./check {pid} thorough",
      "evidence_file":f"/verif/evidence/{pid}.json","replay_cmd_template":"./check --replay {path}","engine":eng,
      "level_claimed":{"category":lvl,"text":text,"design_ref":ref},"level_note":note,"technique":tech})
json.dump(m,open("/verif/MANIFEST.json","w"),indent=1)
print("ok",len(m["checks"]))

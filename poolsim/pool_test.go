// Package poolsim is the C18 engine: a cooperative, seeded scheduler over the verif-tagged yield
// points of pkg/pool, run inside a testing/synctest bubble (quiescence detection). It is compiled as
// a test binary with go1.26.8 and speaks the driver's worker protocol on stdin/stdout.
package poolsim

import (
	"fmt"
	"os"
	"runtime"
	"sort"
	"strconv"
	"strings"
	"sync"
	"testing"
	"testing/synctest"

	"github.com/taurusgroup/multi-party-sig/pkg/pool"
	"github.com/taurusgroup/multi-party-sig/verif/c18meta"
	"github.com/taurusgroup/multi-party-sig/verif/fw"
	"github.com/taurusgroup/multi-party-sig/verif/sim"
)

var theT *testing.T

// parked is one goroutine waiting at a yield point.
type parked struct {
	key     string // canonical: role/point/task
	arrival int
	ch      chan struct{}
}

type sched struct {
	mu      sync.Mutex
	parked  []*parked
	arrival int
	task    map[uint64]string // goroutine id -> task label while inside a task body
	log     []string
	states  map[string]bool
	steps   int
}

func gid() uint64 {
	var buf [64]byte
	n := runtime.Stack(buf[:], false)
	f := strings.Fields(string(buf[:n]))
	id, _ := strconv.ParseUint(f[1], 10, 64)
	return id
}

// yield parks the calling goroutine until the scheduler releases it.
func (s *sched) yield(point string) {
	g := gid()
	s.mu.Lock()
	key := point
	if t, ok := s.task[g]; ok {
		key = point + "#" + t
	}
	p := &parked{key: key, arrival: s.arrival, ch: make(chan struct{})}
	s.arrival++
	s.parked = append(s.parked, p)
	s.mu.Unlock()
	<-p.ch
}

func (s *sched) setTask(label string) {
	g := gid()
	s.mu.Lock()
	if label == "" {
		delete(s.task, g)
	} else {
		s.task[g] = label
	}
	s.mu.Unlock()
}

// sorted returns the parked goroutines in canonical order.
func (s *sched) sorted() []*parked {
	s.mu.Lock()
	defer s.mu.Unlock()
	out := append([]*parked{}, s.parked...)
	sort.SliceStable(out, func(i, j int) bool {
		if out[i].key != out[j].key {
			return out[i].key < out[j].key
		}
		return out[i].arrival < out[j].arrival
	})
	return out
}

func (s *sched) release(p *parked) {
	s.mu.Lock()
	for i, q := range s.parked {
		if q == p {
			s.parked = append(s.parked[:i], s.parked[i+1:]...)
			break
		}
	}
	s.mu.Unlock()
	close(p.ch)
}

// op is one call made by the single caller goroutine.
type op struct {
	Search bool
	Count  int
	// task shape: number of internal yields of task i / of each search attempt; search failure pattern
	Yields []int
	Fails  []bool // search: attempt k returns nil
}

func (o op) String() string {
	if o.Search {
		return fmt.Sprintf("Search(count=%d yields=%v fails=%v)", o.Count, o.Yields, o.Fails)
	}
	return fmt.Sprintf("Parallelize(count=%d yields=%v)", o.Count, o.Yields)
}

// bubbleTag returns the "synctest bubble N" marker of the calling goroutine ("" outside a bubble).
func bubbleTag() string {
	var buf [256]byte
	n := runtime.Stack(buf[:], false)
	h := string(buf[:n])
	if i := strings.Index(h, "\n"); i > 0 {
		h = h[:i]
	}
	if i := strings.Index(h, "synctest bubble "); i >= 0 {
		t := h[i:]
		if j := strings.IndexAny(t, ",]"); j > 0 {
			t = t[:j]
		}
		return t
	}
	return ""
}

// countPoolGoroutines counts the goroutines OF THE CURRENT BUBBLE whose stack is inside pkg/pool
// worker code, and those of them blocked in a channel send (lost on the notification channel).
func countPoolGoroutines() (workers, blockedSend int) {
	tag := bubbleTag()
	buf := make([]byte, 4<<20)
	n := runtime.Stack(buf, true)
	for _, g := range strings.Split(string(buf[:n]), "\n\n") {
		first := g
		if i := strings.Index(g, "\n"); i > 0 {
			first = g[:i]
		}
		if tag == "" || !strings.Contains(first, tag+",") && !strings.Contains(first, tag+"]") {
			continue
		}
		if strings.Contains(g, "pkg/pool.worker") {
			workers++
			if strings.Contains(first, "chan send") {
				blockedSend++
			}
		}
	}
	return
}

func runC18(c *fw.Ctx) {
	W := 1 + c.S.Draw(4, "workers")
	nops := 1 + c.S.Draw(5, "ops")
	var ops []op
	for i := 0; i < nops; i++ {
		o := op{Search: c.S.Draw(2, "search") == 1, Count: c.S.Draw(6, "count")}
		if o.Search {
			if o.Count > 3 {
				o.Count = 3
			}
			attempts := o.Count + 6
			for k := 0; k < attempts; k++ {
				o.Yields = append(o.Yields, c.S.Draw(3, "yields"))
				o.Fails = append(o.Fails, c.S.Draw(3, "fail") == 2)
			}
			// a search whose task never succeeds never returns, by definition: the cyclic failure pattern
			// always contains a success (an all-failing pattern, drawn with probability 3^-7..3^-9, made
			// thorough-tier workers spin forever in the nil-pool comparison below)
			o.Fails[len(o.Fails)-1] = false
		} else {
			for k := 0; k < o.Count; k++ {
				o.Yields = append(o.Yields, c.S.Draw(4, "yields"))
			}
		}
		ops = append(ops, o)
	}
	c.Res.Desc = fmt.Sprintf("W=%d ops=%v", W, ops)
	s := &sched{task: map[uint64]string{}, states: map[string]bool{}}
	var verdict, detail string
	bad := func(v, d string) {
		if verdict == "" {
			verdict, detail = v, d
		}
	}
	// the bubble may end with a deadlock panic if goroutines stay blocked: recover it
	func() {
		defer func() {
			if p := recover(); p != nil {
				msg := fmt.Sprint(p)
				if strings.Contains(msg, "deadlock") || strings.Contains(msg, "blocked goroutines") {
					bad("goroutines-left-blocked-after-teardown", "the bubble ended with goroutines still blocked: "+msg)
					return
				}
				panic(p)
			}
		}()
		synctest.Test(theT, func(t *testing.T) {
			pool.SimYield = s.yield
			// when both select cases of the caller are ready, the simulator (not the runtime) decides
			pref := 1
			pool.SimSelect = func() int { return pref }
			defer func() { pool.SimYield = nil; pool.SimSelect = nil }()
			p := pool.NewPool(W)
			type result struct {
				vals []interface{}
			}
			results := make([]result, len(ops))
			callerDone := make(chan struct{})
			curOp := -1
			barrierArrived := 0
			probing := false
			go func() {
				defer close(callerDone)
				for i, o := range ops {
					curOp = i
					o := o
					if o.Search {
						attempt := 0
						var amu sync.Mutex
						got := p.Search(o.Count, func() interface{} {
							amu.Lock()
							k := attempt
							attempt++
							amu.Unlock()
							lbl := fmt.Sprintf("s%d", k%len(o.Yields))
							s.setTask(lbl)
							for y := 0; y < o.Yields[k%len(o.Yields)]; y++ {
								s.yield("task:run")
							}
							s.setTask("")
							if o.Fails[k%len(o.Fails)] {
								return nil
							}
							return k + 1
						})
						// what the caller sees AT RETURN TIME (workers may still write into the slice later)
						results[i].vals = append([]interface{}{}, got...)
					} else {
						got := p.Parallelize(o.Count, func(j int) interface{} {
							s.setTask(fmt.Sprintf("p%d", j))
							for y := 0; y < o.Yields[j]; y++ {
								s.yield("task:run")
							}
							s.setTask("")
							return 1000*i + j
						})
						results[i].vals = append([]interface{}{}, got...)
					}
					s.yield("caller:between-ops")
				}
				// behavioural probe: the pool must still be able to run W tasks at the same time
				probing = true
				curOp = len(ops)
				var bmu sync.Mutex
				p.Parallelize(W, func(j int) interface{} {
					bmu.Lock()
					barrierArrived++
					bmu.Unlock()
					s.setTask(fmt.Sprintf("b%d", j))
					s.yield("barrier:wait")
					s.setTask("")
					return j
				})
			}()
			finished := false
			for !finished {
				synctest.Wait()
				select {
				case <-callerDone:
					finished = true
					continue
				default:
				}
				ps := s.sorted()
				// a barrier task is only releasable once all W arrived
				var rel []*parked
				for _, q := range ps {
					if strings.HasPrefix(q.key, "barrier:wait") && barrierArrived < W {
						continue
					}
					rel = append(rel, q)
				}
				if len(rel) == 0 {
					if probing {
						bad("lost-worker", fmt.Sprintf("after the call sequence only %d of %d workers could take a task at the same time: the others never came back from an earlier call", barrierArrived, W))
					} else {
						bad("call-never-returns", fmt.Sprintf("op #%d %v: nothing is runnable and the call has not returned", curOp, ops[curOp]))
					}
					// unblock everything we can so that the bubble can end: release barrier tasks
					for _, q := range ps {
						s.release(q)
					}
					return
				}
				// auto-release goroutines that only need to identify themselves (no shared-memory step ahead)
				k := s.pick(c, rel)
				st := fmt.Sprintf("op%d|", curOp)
				for _, q := range rel {
					st += q.key + ","
				}
				s.states[st] = true
				s.log = append(s.log, fmt.Sprintf("release %s  (of %d parked)", rel[k].key, len(rel)))
				s.steps++
				if s.steps > 5000 {
					bad("step-bound", "scheduler step bound hit")
					return
				}
				if strings.HasPrefix(rel[k].key, "c:before-select") {
					pref = 1 + c.S.Draw(2, "select-preference")
				}
				s.release(rel[k])
			}
			// results
			for i, o := range ops {
				got := results[i].vals
				if o.Search {
					nonNil := 0
					for _, v := range got {
						if v != nil {
							nonNil++
						}
					}
					if len(got) != o.Count || nonNil != o.Count {
						bad("search-wrong-result", fmt.Sprintf("op #%d %v returned %v", i, o, got))
					}
				} else {
					if len(got) != o.Count {
						bad("parallelize-wrong-result", fmt.Sprintf("op #%d %v returned %d results", i, o, len(got)))
					}
					for j, v := range got {
						if v != 1000*i+j {
							bad("parallelize-wrong-result", fmt.Sprintf("op #%d %v: result[%d]=%v want %d", i, o, j, v, 1000*i+j))
						}
					}
				}
			}
			// let every goroutine still parked at a yield run on to quiescence
			drain := func() {
				for i := 0; i < 1000; i++ {
					synctest.Wait()
					ps := s.sorted()
					if len(ps) == 0 {
						return
					}
					q := ps[c.S.Draw(len(ps), "sched-drain")]
					if strings.HasPrefix(q.key, "c:before-select") {
						pref = 1 + c.S.Draw(2, "select-preference")
					}
					s.release(q)
					s.steps++
				}
			}
			drain()
			// lost workers by inspection (second detector)
			synctest.Wait()
			if _, blocked := countPoolGoroutines(); blocked > 0 {
				bad("lost-worker", fmt.Sprintf("%d worker goroutine(s) are blocked forever sending a notification nobody will receive", blocked))
			}
			p.TearDown()
			drain()
			synctest.Wait()
			if left, _ := countPoolGoroutines(); left > 0 {
				bad("goroutines-left-after-teardown", fmt.Sprintf("%d worker goroutine(s) still exist after TearDown", left))
				// let the bubble finish: nothing more to do, the deadlock panic is recovered above
			}
		})
	}()
	c.Res.Steps = s.steps
	c.Res.NonTrivial = s.steps > 0
	for st := range s.states {
		c.Res.States = append(c.Res.States, st)
	}
	if c.KeepLog {
		c.Res.Log = s.log
	}
	if verdict != "" {
		c.Violate(verdict, "%s\n  world: %s", detail, c.Res.Desc)
	}
	// nil pool gives the same results on the calling goroutine
	var np *pool.Pool
	for i, o := range ops {
		if o.Search {
			k := 0
			got := np.Search(o.Count, func() interface{} {
				k++
				if o.Fails[(k-1)%len(o.Fails)] {
					return nil
				}
				return k
			})
			for _, v := range got {
				if v == nil || len(got) != o.Count {
					c.Violate("nil-pool-search-wrong-result", "nil pool: op #%d %v returned %v", i, o, got)
				}
			}
		} else {
			got := np.Parallelize(o.Count, func(j int) interface{} { return 1000*i + j })
			for j, v := range got {
				if v != 1000*i+j || len(got) != o.Count {
					c.Violate("nil-pool-parallelize-wrong-result", "nil pool: op #%d %v returned %v", i, o, got)
				}
			}
		}
	}
	c.Res.Sample = map[string]interface{}{"desc": c.Res.Desc, "scheduler_steps": s.steps, "schedule_head": headS(s.log, 12)}
}

func headS(s []string, n int) []string {
	if len(s) > n {
		return s[:n]
	}
	return s
}

// pick chooses which parked goroutine proceeds (decision 0 = first in canonical order).
func (s *sched) pick(c *fw.Ctx, rel []*parked) int {
	return c.S.Draw(len(rel), "sched")
}

func propDef() *fw.PropDef {
	p := c18meta.Def()
	p.Run = runC18
	return p
}

// TestWorker turns the test binary into a driver worker / replayer (selected by environment).
func TestWorker(t *testing.T) {
	spec := os.Getenv("VERIF_POOLSIM")
	if spec == "" {
		t.Skip("driver only")
	}
	theT = t
	p := propDef()
	fw.Register(p)
	sim.InstallRouter()
	f := strings.Split(spec, ",")
	switch f[0] {
	case "worker":
		seed, _ := strconv.ParseInt(f[2], 10, 64)
		fw.WorkerLoop(p, f[1], seed)
	case "case":
		seed, _ := strconv.ParseInt(f[2], 10, 64)
		n, _ := strconv.Atoi(f[3])
		fw.PrintCase(p, f[1], seed, n)
	case "digest":
		seed, _ := strconv.ParseInt(f[2], 10, 64)
		a, _ := strconv.Atoi(f[3])
		b, _ := strconv.Atoi(f[4])
		fw.PrintDigests(p, f[1], seed, a, b)
	case "replay":
		os.Exit(fw.ReplayMain(f[1]))
	}
}

module github.com/taurusgroup/multi-party-sig/verif/poolsim

go 1.26.8

require (
	github.com/taurusgroup/multi-party-sig v0.0.0
	github.com/taurusgroup/multi-party-sig/verif v0.0.0
)

require (
	github.com/cronokirby/saferith v0.33.0 // indirect
	github.com/decred/dcrd/dcrec/secp256k1/v4 v4.2.0 // indirect
	github.com/fxamacker/cbor/v2 v2.4.0 // indirect
	github.com/klauspost/cpuid/v2 v2.2.5 // indirect
	github.com/x448/float16 v0.8.4 // indirect
	github.com/zeebo/blake3 v0.2.3 // indirect
)

replace github.com/taurusgroup/multi-party-sig => /repo

replace github.com/taurusgroup/multi-party-sig/verif => /verif

// Package ref holds small reference implementations written from the standards (SEC1/SEC2, BIP-340,
// BIP-32). It shares no code with the library under test nor with the decred package it wraps.
package ref

import (
	"errors"
	"math/big"
)

var (
	P, _  = new(big.Int).SetString("FFFFFFFFFFFFFFFFFFFFFFFFFFFFFFFFFFFFFFFFFFFFFFFFFFFFFFFEFFFFFC2F", 16)
	Q, _  = new(big.Int).SetString("FFFFFFFFFFFFFFFFFFFFFFFFFFFFFFFEBAAEDCE6AF48A03BBFD25E8CD0364141", 16)
	Gx, _ = new(big.Int).SetString("79BE667EF9DCBBAC55A06295CE870B07029BFCDB2DCE28D959F2815B16F81798", 16)
	Gy, _ = new(big.Int).SetString("483ADA7726A3C4655DA4FBFC0E1108A8FD17B448A68554199C47D08FFB10D4B8", 16)
	seven = big.NewInt(7)
)

// Pt is an affine point; Inf marks the identity.
type Pt struct {
	X, Y *big.Int
	Inf  bool
}

func G() Pt        { return Pt{X: new(big.Int).Set(Gx), Y: new(big.Int).Set(Gy)} }
func Infinity() Pt { return Pt{Inf: true} }

func (a Pt) Equal(b Pt) bool {
	if a.Inf || b.Inf {
		return a.Inf == b.Inf
	}
	return a.X.Cmp(b.X) == 0 && a.Y.Cmp(b.Y) == 0
}

func (a Pt) OnCurve() bool {
	if a.Inf {
		return true
	}
	if a.X.Sign() < 0 || a.X.Cmp(P) >= 0 || a.Y.Sign() < 0 || a.Y.Cmp(P) >= 0 {
		return false
	}
	l := new(big.Int).Mul(a.Y, a.Y)
	l.Mod(l, P)
	r := new(big.Int).Mul(a.X, a.X)
	r.Mul(r, a.X)
	r.Add(r, seven)
	r.Mod(r, P)
	return l.Cmp(r) == 0
}

func (a Pt) Neg() Pt {
	if a.Inf {
		return a
	}
	y := new(big.Int).Sub(P, a.Y)
	y.Mod(y, P)
	return Pt{X: new(big.Int).Set(a.X), Y: y}
}

// jacobian point
type jac struct{ x, y, z *big.Int }

func toJac(a Pt) jac {
	if a.Inf {
		return jac{big.NewInt(1), big.NewInt(1), big.NewInt(0)}
	}
	return jac{new(big.Int).Set(a.X), new(big.Int).Set(a.Y), big.NewInt(1)}
}

func (j jac) affine() Pt {
	if j.z.Sign() == 0 {
		return Infinity()
	}
	zi := new(big.Int).ModInverse(j.z, P)
	zi2 := new(big.Int).Mul(zi, zi)
	zi2.Mod(zi2, P)
	x := new(big.Int).Mul(j.x, zi2)
	x.Mod(x, P)
	zi3 := zi2.Mul(zi2, zi)
	zi3.Mod(zi3, P)
	y := new(big.Int).Mul(j.y, zi3)
	y.Mod(y, P)
	return Pt{X: x, Y: y}
}

func mulmod(a, b *big.Int) *big.Int {
	r := new(big.Int).Mul(a, b)
	return r.Mod(r, P)
}
func submod(a, b *big.Int) *big.Int {
	r := new(big.Int).Sub(a, b)
	return r.Mod(r, P)
}
func addmod(a, b *big.Int) *big.Int {
	r := new(big.Int).Add(a, b)
	return r.Mod(r, P)
}

func (j jac) double() jac {
	if j.z.Sign() == 0 || j.y.Sign() == 0 {
		return jac{big.NewInt(1), big.NewInt(1), big.NewInt(0)}
	}
	// a = 0 curve: standard formulas
	ysq := mulmod(j.y, j.y)
	s := mulmod(big.NewInt(4), mulmod(j.x, ysq))
	m := mulmod(big.NewInt(3), mulmod(j.x, j.x))
	x3 := submod(mulmod(m, m), mulmod(big.NewInt(2), s))
	y3 := submod(mulmod(m, submod(s, x3)), mulmod(big.NewInt(8), mulmod(ysq, ysq)))
	z3 := mulmod(big.NewInt(2), mulmod(j.y, j.z))
	return jac{x3, y3, z3}
}

func (j jac) add(k jac) jac {
	if j.z.Sign() == 0 {
		return k
	}
	if k.z.Sign() == 0 {
		return j
	}
	z1z1 := mulmod(j.z, j.z)
	z2z2 := mulmod(k.z, k.z)
	u1 := mulmod(j.x, z2z2)
	u2 := mulmod(k.x, z1z1)
	s1 := mulmod(j.y, mulmod(k.z, z2z2))
	s2 := mulmod(k.y, mulmod(j.z, z1z1))
	if u1.Cmp(u2) == 0 {
		if s1.Cmp(s2) != 0 {
			return jac{big.NewInt(1), big.NewInt(1), big.NewInt(0)}
		}
		return j.double()
	}
	h := submod(u2, u1)
	r := submod(s2, s1)
	h2 := mulmod(h, h)
	h3 := mulmod(h2, h)
	u1h2 := mulmod(u1, h2)
	x3 := submod(submod(mulmod(r, r), h3), mulmod(big.NewInt(2), u1h2))
	y3 := submod(mulmod(r, submod(u1h2, x3)), mulmod(s1, h3))
	z3 := mulmod(h, mulmod(j.z, k.z))
	return jac{x3, y3, z3}
}

// Add returns a+b.
func (a Pt) Add(b Pt) Pt { return toJac(a).add(toJac(b)).affine() }

// Mul returns k*a for k reduced mod Q.
func (a Pt) Mul(k *big.Int) Pt {
	kk := new(big.Int).Mod(k, Q)
	acc := jac{big.NewInt(1), big.NewInt(1), big.NewInt(0)}
	base := toJac(a)
	for i := kk.BitLen() - 1; i >= 0; i-- {
		acc = acc.double()
		if kk.Bit(i) == 1 {
			acc = acc.add(base)
		}
	}
	return acc.affine()
}

// BaseMul returns k*G.
func BaseMul(k *big.Int) Pt { return G().Mul(k) }

// Compress encodes as 02/03 || X.
func (a Pt) Compress() []byte {
	out := make([]byte, 33)
	if a.Inf {
		return out
	}
	out[0] = 2 + byte(a.Y.Bit(0))
	a.X.FillBytes(out[1:])
	return out
}

// LiftX returns the point with the given x and even y (BIP-340 lift_x).
func LiftX(x *big.Int) (Pt, error) {
	if x.Sign() < 0 || x.Cmp(P) >= 0 {
		return Pt{}, errors.New("x out of range")
	}
	c := new(big.Int).Exp(x, big.NewInt(3), P)
	c.Add(c, seven)
	c.Mod(c, P)
	e := new(big.Int).Add(P, big.NewInt(1))
	e.Rsh(e, 2)
	y := new(big.Int).Exp(c, e, P)
	if mulmod(y, y).Cmp(c) != 0 {
		return Pt{}, errors.New("not on curve")
	}
	if y.Bit(0) == 1 {
		y.Sub(P, y)
	}
	return Pt{X: new(big.Int).Set(x), Y: y}, nil
}

// Decompress parses a 33-byte SEC1 compressed point.
func Decompress(b []byte) (Pt, error) {
	if len(b) != 33 {
		return Pt{}, errors.New("bad length")
	}
	allZero := true
	for _, c := range b {
		if c != 0 {
			allZero = false
		}
	}
	if allZero {
		return Infinity(), nil
	}
	if b[0] != 2 && b[0] != 3 {
		return Pt{}, errors.New("bad prefix")
	}
	p, err := LiftX(new(big.Int).SetBytes(b[1:]))
	if err != nil {
		return Pt{}, err
	}
	if b[0] == 3 {
		p = p.Neg()
	}
	return p, nil
}

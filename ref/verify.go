package ref

import (
	"crypto/hmac"
	"crypto/sha256"
	"crypto/sha512"
	"encoding/binary"
	"errors"
	"io"
	"math/big"

	"github.com/zeebo/blake3"
)

// Bits2Int is the SEC1 / FIPS 186 conversion of a digest to an integer (leftmost qlen bits).
func Bits2Int(h []byte) *big.Int {
	qb := Q.BitLen()
	ob := (qb + 7) / 8
	if len(h) > ob {
		h = h[:ob]
	}
	e := new(big.Int).SetBytes(h)
	if ex := len(h)*8 - qb; ex > 0 {
		e.Rsh(e, uint(ex))
	}
	return e
}

// ECDSAVerify is the textbook SEC1 verification of (r,s) on digest h under public key Y.
func ECDSAVerify(Y Pt, h []byte, r, s *big.Int) bool {
	if Y.Inf || !Y.OnCurve() {
		return false
	}
	if r.Sign() <= 0 || r.Cmp(Q) >= 0 || s.Sign() <= 0 || s.Cmp(Q) >= 0 {
		return false
	}
	e := Bits2Int(h)
	w := new(big.Int).ModInverse(s, Q)
	u1 := new(big.Int).Mul(e, w)
	u1.Mod(u1, Q)
	u2 := new(big.Int).Mul(r, w)
	u2.Mod(u2, Q)
	X := BaseMul(u1).Add(Y.Mul(u2))
	if X.Inf {
		return false
	}
	v := new(big.Int).Mod(X.X, Q)
	return v.Cmp(r) == 0
}

// ECDSARecover returns the public key recovered from (r,s,v) on digest h (SEC1 4.1.6, Ethereum style, v in {0,1}).
func ECDSARecover(h []byte, r, s *big.Int, v byte) (Pt, error) {
	if r.Sign() <= 0 || r.Cmp(Q) >= 0 || s.Sign() <= 0 || s.Cmp(Q) >= 0 || v > 1 {
		return Pt{}, errors.New("bad signature")
	}
	R, err := LiftX(r)
	if err != nil {
		return Pt{}, err
	}
	if v == 1 {
		R = R.Neg()
	}
	e := Bits2Int(h)
	ri := new(big.Int).ModInverse(r, Q)
	// Q = r^-1 (sR - eG)
	sR := R.Mul(s)
	eG := BaseMul(e).Neg()
	return sR.Add(eG).Mul(ri), nil
}

func taggedHash(tag string, parts ...[]byte) []byte {
	t := sha256.Sum256([]byte(tag))
	h := sha256.New()
	h.Write(t[:])
	h.Write(t[:])
	for _, p := range parts {
		h.Write(p)
	}
	return h.Sum(nil)
}

// BIP340Verify implements the verification algorithm of BIP-340 for arbitrary-length messages.
func BIP340Verify(pk []byte, msg []byte, sig []byte) bool {
	if len(pk) != 32 || len(sig) != 64 {
		return false
	}
	Pp, err := LiftX(new(big.Int).SetBytes(pk))
	if err != nil {
		return false
	}
	r := new(big.Int).SetBytes(sig[:32])
	s := new(big.Int).SetBytes(sig[32:])
	if r.Cmp(P) >= 0 || s.Cmp(Q) >= 0 {
		return false
	}
	e := new(big.Int).SetBytes(taggedHash("BIP0340/challenge", sig[:32], pk, msg))
	e.Mod(e, Q)
	R := BaseMul(s).Add(Pp.Mul(e).Neg())
	if R.Inf || R.Y.Bit(0) == 1 {
		return false
	}
	return R.X.Cmp(r) == 0
}

// libHash re-implements the library's transcript framing on top of the blake3 primitive:
// "CMP-BLAKE" then for each item "(" u64(len(domain)) domain u64(len(data)) data ")".
type libHash struct{ h *blake3.Hasher }

func newLibHash() *libHash {
	h := blake3.New()
	_, _ = h.WriteString("CMP-BLAKE")
	return &libHash{h}
}

func (l *libHash) item(domain string, data []byte) {
	var sz [8]byte
	_, _ = l.h.WriteString("(")
	binary.BigEndian.PutUint64(sz[:], uint64(len(domain)))
	_, _ = l.h.Write(sz[:])
	_, _ = l.h.WriteString(domain)
	binary.BigEndian.PutUint64(sz[:], uint64(len(data)))
	_, _ = l.h.Write(sz[:])
	_, _ = l.h.Write(data)
	_, _ = l.h.WriteString(")")
}

// FrostChallenge is c = H(R, Y, m) as the library's native (non-taproot) FROST defines it.
func FrostChallenge(R, Y Pt, m []byte) *big.Int {
	h := newLibHash()
	h.item("*curve.Secp256k1Point", R.Compress())
	h.item("*curve.Secp256k1Point", Y.Compress())
	h.item("messageHash", m)
	buf := make([]byte, 32)
	_, _ = io.ReadFull(h.h.Digest(), buf)
	c := new(big.Int).SetBytes(buf)
	return c.Mod(c, Q)
}

// SchnorrVerify checks z*G == R + c*Y with c = FrostChallenge.
func SchnorrVerify(Y, R Pt, z *big.Int, m []byte) bool {
	if Y.Inf || !Y.OnCurve() || !R.OnCurve() {
		return false
	}
	if z.Sign() < 0 || z.Cmp(Q) >= 0 {
		return false
	}
	c := FrostChallenge(R, Y, m)
	return BaseMul(z).Equal(R.Add(Y.Mul(c)))
}

// CKDpub is BIP-32 public parent key -> public child key for a non-hardened index.
func CKDpub(K Pt, chain []byte, i uint32) (Pt, []byte, error) {
	if i >= 1<<31 {
		return Pt{}, nil, errors.New("hardened index")
	}
	mac := hmac.New(sha512.New, chain)
	mac.Write(K.Compress())
	var ib [4]byte
	binary.BigEndian.PutUint32(ib[:], i)
	mac.Write(ib[:])
	I := mac.Sum(nil)
	il := new(big.Int).SetBytes(I[:32])
	if il.Cmp(Q) >= 0 {
		return Pt{}, nil, errors.New("IL >= n")
	}
	child := BaseMul(il).Add(K)
	if child.Inf {
		return Pt{}, nil, errors.New("child at infinity")
	}
	return child, I[32:], nil
}

// CKDScalar returns IL.
func CKDScalar(K Pt, chain []byte, i uint32) *big.Int {
	mac := hmac.New(sha512.New, chain)
	mac.Write(K.Compress())
	var ib [4]byte
	binary.BigEndian.PutUint32(ib[:], i)
	mac.Write(ib[:])
	I := mac.Sum(nil)
	return new(big.Int).SetBytes(I[:32])
}

// IDScalar maps a party identifier to a scalar: big-endian integer of its bytes mod q.
func IDScalar(id string) *big.Int {
	x := new(big.Int).SetBytes([]byte(id))
	return x.Mod(x, Q)
}

// LagrangeAtZero returns the coefficients l_i(0) for the identifier set.
func LagrangeAtZero(ids []string) map[string]*big.Int {
	out := map[string]*big.Int{}
	for _, i := range ids {
		xi := IDScalar(i)
		num := big.NewInt(1)
		den := big.NewInt(1)
		for _, j := range ids {
			if j == i {
				continue
			}
			xj := IDScalar(j)
			num.Mul(num, xj)
			num.Mod(num, Q)
			d := new(big.Int).Sub(xj, xi)
			d.Mod(d, Q)
			den.Mul(den, d)
			den.Mod(den, Q)
		}
		den.ModInverse(den, Q)
		num.Mul(num, den)
		num.Mod(num, Q)
		out[i] = num
	}
	return out
}

// InterpolateSecret combines scalar shares at 0.
func InterpolateSecret(shares map[string]*big.Int) *big.Int {
	ids := make([]string, 0, len(shares))
	for id := range shares {
		ids = append(ids, id)
	}
	l := LagrangeAtZero(ids)
	s := new(big.Int)
	for id, sh := range shares {
		t := new(big.Int).Mul(l[id], sh)
		s.Add(s, t)
	}
	return s.Mod(s, Q)
}

// InterpolatePoint combines public shares in the exponent at 0.
func InterpolatePoint(shares map[string]Pt) Pt {
	ids := make([]string, 0, len(shares))
	for id := range shares {
		ids = append(ids, id)
	}
	l := LagrangeAtZero(ids)
	acc := Infinity()
	for id, sh := range shares {
		acc = acc.Add(sh.Mul(l[id]))
	}
	return acc
}

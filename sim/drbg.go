package sim

import (
	"crypto/aes"
	"crypto/cipher"
	crand "crypto/rand"
	"crypto/sha256"
	"io"
	"sync"
)

// DRBG is an AES-CTR stream keyed by a label; it replaces crypto/rand.Reader for one party.
type DRBG struct {
	stream cipher.Stream
	Label  string
	Count  int64
	// Fault modes (C11): "", "const", "zero"
	Mode string
	// ForkAt/ForkLabel: once Count reaches ForkAt (>0) the stream continues as NewDRBG(ForkLabel):
	// a twin that is bit-identical up to a point and independent afterwards (C06).
	ForkAt    int64
	ForkLabel string
}

// NewDRBG derives the stream from SHA-256(label).
func NewDRBG(label string) *DRBG {
	k := sha256.Sum256([]byte("verif-drbg|" + label))
	blk, err := aes.NewCipher(k[:])
	if err != nil {
		panic(err)
	}
	iv := make([]byte, aes.BlockSize)
	return &DRBG{stream: cipher.NewCTR(blk, iv), Label: label}
}

func (d *DRBG) Read(p []byte) (int, error) {
	if d.ForkAt > 0 && d.Count >= d.ForkAt {
		f := NewDRBG(d.ForkLabel)
		d.stream = f.stream
		d.ForkAt = 0
	}
	d.Count += int64(len(p))
	switch d.Mode {
	case "zero":
		for i := range p {
			p[i] = 0
		}
		return len(p), nil
	case "const":
		for i := range p {
			p[i] = 0x5a
		}
		return len(p), nil
	}
	for i := range p {
		p[i] = 0
	}
	d.stream.XORKeyStream(p, p)
	return len(p), nil
}

// Router is installed as crypto/rand.Reader; it serves the stream of the party the simulator
// is currently executing. One world runs at a time per OS process.
type Router struct {
	mu      sync.Mutex
	cur     *DRBG
	harness *DRBG
}

var theRouter *Router
var origReader io.Reader

// InstallRouter replaces crypto/rand.Reader (idempotent).
func InstallRouter() *Router {
	if theRouter == nil {
		origReader = crand.Reader
		theRouter = &Router{harness: NewDRBG("harness")}
		crand.Reader = theRouter
	}
	return theRouter
}

func (r *Router) Read(p []byte) (int, error) {
	r.mu.Lock()
	defer r.mu.Unlock()
	if r.cur != nil {
		return r.cur.Read(p)
	}
	return r.harness.Read(p)
}

// Use selects the stream for subsequent library calls and returns the previous one.
func (r *Router) Use(d *DRBG) *DRBG {
	r.mu.Lock()
	defer r.mu.Unlock()
	old := r.cur
	r.cur = d
	return old
}

// ResetHarness re-keys the harness stream (per case) so cases are independent of worker assignment.
func (r *Router) ResetHarness(label string) {
	r.mu.Lock()
	defer r.mu.Unlock()
	r.harness = NewDRBG("harness|" + label)
	r.cur = nil
}

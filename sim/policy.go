package sim

// Policy picks the next envelope to deliver from n.Pool (kept in canonical insertion order).
type Policy interface {
	Next(n *Net) int
	Name() string
}

// eligible returns the indexes of envelopes whose release step has passed; if none, all.
func eligible(n *Net) []int {
	var idx []int
	for i, e := range n.Pool {
		if e.Release <= n.Steps {
			idx = append(idx, i)
		}
	}
	if len(idx) == 0 {
		// heal: everything becomes deliverable
		for i, e := range n.Pool {
			e.Release = 0
			idx = append(idx, i)
		}
		n.Probes["partition_healed_by_quiescence"]++
	}
	return idx
}

type FIFO struct{}

func (FIFO) Name() string { return "fifo" }
func (FIFO) Next(n *Net) int {
	idx := eligible(n)
	return idx[0]
}

type LIFO struct{}

func (LIFO) Name() string { return "lifo" }
func (LIFO) Next(n *Net) int {
	idx := eligible(n)
	return idx[len(idx)-1]
}

type Random struct{}

func (Random) Name() string { return "random" }
func (Random) Next(n *Net) int {
	idx := eligible(n)
	return idx[n.S.Draw(len(idx), "pick")]
}

// SlowNode starves one victim: its inbound messages are delivered only when nothing else is
// enabled, which maximises early arrival of later-round messages at the victim.
type SlowNode struct{ Victim *Node }

func (SlowNode) Name() string { return "slow-node" }
func (p SlowNode) Next(n *Net) int {
	idx := eligible(n)
	var other []int
	for _, i := range idx {
		if n.Pool[i].Node != p.Victim {
			other = append(other, i)
		}
	}
	if len(other) > 0 {
		return other[n.S.Draw(len(other), "pick")]
	}
	n.Probes["slow_node_backlog_release"]++
	// release the victim's backlog newest first or random
	return idx[len(idx)-1-n.S.Draw(len(idx), "pick-victim")]
}

// FastNode always serves one node first.
type FastNode struct{ Fav *Node }

func (FastNode) Name() string { return "fast-node" }
func (p FastNode) Next(n *Net) int {
	idx := eligible(n)
	var fav []int
	for _, i := range idx {
		if n.Pool[i].Node == p.Fav {
			fav = append(fav, i)
		}
	}
	if len(fav) > 0 {
		return fav[n.S.Draw(len(fav), "pick")]
	}
	return idx[n.S.Draw(len(idx), "pick")]
}

// P2PFirst lets a sender's point-to-point message overtake its broadcast.
type P2PFirst struct{}

func (P2PFirst) Name() string { return "p2p-before-broadcast" }
func (P2PFirst) Next(n *Net) int {
	idx := eligible(n)
	var p2p []int
	for _, i := range idx {
		if !n.Pool[i].Bcast {
			p2p = append(p2p, i)
		}
	}
	if len(p2p) > 0 {
		n.Probes["p2p_chosen_while_broadcast_pending"]++
		return p2p[len(p2p)-1-n.S.Draw(len(p2p), "pick")]
	}
	return idx[len(idx)-1-n.S.Draw(len(idx), "pick")]
}

// LinkFIFO keeps per-link order but interleaves links at random.
type LinkFIFO struct{}

func (LinkFIFO) Name() string { return "link-fifo" }
func (LinkFIFO) Next(n *Net) int {
	idx := eligible(n)
	seen := map[string]bool{}
	var heads []int
	for _, i := range idx {
		e := n.Pool[i]
		k := string(e.From) + ">" + string(e.To) + "@" + e.Node.Tag
		if !seen[k] {
			seen[k] = true
			heads = append(heads, i)
		}
	}
	return heads[n.S.Draw(len(heads), "pick")]
}

// Partition holds messages crossing a cut for a drawn number of steps, then heals.
type Partition struct {
	Side  map[*Node]bool
	Until int
	Inner Policy
}

func (Partition) Name() string { return "partition-heal" }
func (p Partition) Next(n *Net) int {
	if n.Steps < p.Until {
		held := 0
		for _, e := range n.Pool {
			if e.Release == 0 && e.Seq > 0 {
				// find sender node side by id
				var fromSide, known bool
				for _, nd := range n.Nodes {
					if nd.ID == e.From && nd.Tag == e.Node.Tag {
						fromSide, known = p.Side[nd], true
						break
					}
				}
				if known && fromSide != p.Side[e.Node] {
					e.Release = p.Until
					held++
				}
			}
		}
		if held > 0 {
			n.Faults["partition_hold"] += held
		}
	}
	return p.Inner.Next(n)
}

// DrawPolicy picks a policy for a world (0 = FIFO).
func DrawPolicy(n *Net) Policy {
	nodes := n.Nodes
	switch n.S.Draw(8, "policy") {
	case 0:
		return FIFO{}
	case 1:
		return Random{}
	case 2:
		return LIFO{}
	case 3:
		return SlowNode{Victim: nodes[n.S.Draw(len(nodes), "victim")]}
	case 4:
		return FastNode{Fav: nodes[n.S.Draw(len(nodes), "fav")]}
	case 5:
		return P2PFirst{}
	case 6:
		return LinkFIFO{}
	default:
		side := map[*Node]bool{}
		for _, nd := range nodes {
			side[nd] = n.S.Draw(2, "side") == 1
		}
		return Partition{Side: side, Until: 1 + n.S.Draw(4*len(nodes)*len(nodes), "until"), Inner: Random{}}
	}
}

// Package sim is the deterministic simulator: one integer decides every choice.
package sim

import (
	"crypto/sha256"
	"encoding/binary"
	"fmt"
)

// splitmix64 is used to expand seeds.
func splitmix64(x *uint64) uint64 {
	*x += 0x9e3779b97f4a7c15
	z := *x
	z = (z ^ (z >> 30)) * 0xbf58476d1ce4e5b9
	z = (z ^ (z >> 27)) * 0x94d049bb133111eb
	return z ^ (z >> 31)
}

type xoshiro struct{ s [4]uint64 }

func rotl(x uint64, k uint) uint64 { return (x << k) | (x >> (64 - k)) }

func (x *xoshiro) next() uint64 {
	s := &x.s
	r := rotl(s[1]*5, 7) * 9
	t := s[1] << 17
	s[2] ^= s[0]
	s[3] ^= s[1]
	s[1] ^= s[2]
	s[0] ^= s[3]
	s[2] ^= t
	s[3] = rotl(s[3], 45)
	return r
}

// CaseSeed derives the per-case seed from (seed, property, case number).
func CaseSeed(seed int64, prop string, caseNo int) uint64 {
	h := sha256.New()
	var b [16]byte
	binary.BigEndian.PutUint64(b[:8], uint64(seed))
	binary.BigEndian.PutUint64(b[8:], uint64(caseNo))
	h.Write(b[:])
	h.Write([]byte(prop))
	return binary.BigEndian.Uint64(h.Sum(nil)[:8])
}

// Decision is one recorded choice.
type Decision struct {
	N     int    `json:"n"`
	V     int    `json:"v"`
	Label string `json:"l,omitempty"`
}

// Source is the single source of every choice in a simulated case. Each choice is a Draw(n)
// in [0,n); 0 is always the "simplest" alternative (FIFO, no fault, smallest size) so that
// replacing recorded decisions by 0 shrinks a failing case.
type Source struct {
	rng    xoshiro
	Trace  []Decision
	replay []int // when non-nil: decisions are served from here, then 0
	pos    int
	Replay bool
}

// NewSource creates a source whose decisions derive from seed alone.
func NewSource(seed uint64) *Source {
	s := &Source{}
	x := seed
	for i := range s.rng.s {
		s.rng.s[i] = splitmix64(&x)
	}
	return s
}

// NewReplaySource serves the recorded decisions verbatim; once exhausted (or when a recorded
// value is out of range) every decision is 0.
func NewReplaySource(vals []int) *Source {
	return &Source{replay: append([]int{}, vals...), Replay: true}
}

// Draw returns a value in [0,n). n<=1 returns 0 without recording.
func (s *Source) Draw(n int, label string) int {
	if n <= 1 {
		return 0
	}
	var v int
	if s.Replay {
		if s.pos < len(s.replay) {
			v = s.replay[s.pos]
			if v < 0 || v >= n {
				v = 0
			}
		}
		s.pos++
	} else {
		v = int(s.rng.next() % uint64(n))
	}
	s.Trace = append(s.Trace, Decision{N: n, V: v, Label: label})
	return v
}

// Bool draws a boolean that is true with probability num/den; false is the simple value.
func (s *Source) Bool(num, den int, label string) bool {
	if num <= 0 {
		return false
	}
	return s.Draw(den, label) >= den-num
}

// Pick draws an index biased to 0 under replay-shrinking and uniform otherwise.
func (s *Source) Pick(n int, label string) int { return s.Draw(n, label) }

// Bytes draws n bytes, one decision per 4 bytes (label reused); used for small harness-side randomness.
func (s *Source) Bytes(n int, label string) []byte {
	out := make([]byte, n)
	for i := 0; i < n; i++ {
		out[i] = byte(s.Draw(256, label))
	}
	return out
}

// Values returns the recorded decision values.
func (s *Source) Values() []int {
	out := make([]int, len(s.Trace))
	for i, d := range s.Trace {
		out[i] = d.V
	}
	return out
}

// TraceHash is a digest of the decision trace.
func (s *Source) TraceHash() string {
	h := sha256.New()
	for _, d := range s.Trace {
		fmt.Fprintf(h, "%d/%d;", d.V, d.N)
	}
	return fmt.Sprintf("%x", h.Sum(nil)[:8])
}

package sim

import (
	"fmt"
	"reflect"
	"runtime"
	"runtime/debug"
	"sort"
	"strings"
	"time"

	"github.com/taurusgroup/multi-party-sig/pkg/party"
	"github.com/taurusgroup/multi-party-sig/pkg/pool"
	"github.com/taurusgroup/multi-party-sig/pkg/protocol"
)

// Node is one simulated party: a real handler plus its private randomness stream.
type Node struct {
	ID        party.ID
	H         protocol.Handler
	Rng       *DRBG
	Honest    bool
	Closed    bool // Listen() channel observed closed
	Dead      bool // crashed / hung / removed: no further deliveries
	Panic     string
	PanicFn   string
	Hang      bool
	HangStack string
	// PoolTaskPanics counts calls in which a panic escaped from a pool task (see pool.SimTaskDepth).
	PoolTaskPanics int
	Sent           []*protocol.Message // everything the node emitted, in canonical order
	Recv           []*Env              // everything delivered to it (in delivery order)
	Tag            string              // free label (e.g. session name)
	out            <-chan *protocol.Message
	initial        []*protocol.Message
}

// Env is one (message, addressee) pair in flight.
type Env struct {
	ID      string
	From    party.ID
	To      party.ID
	Round   int
	Bcast   bool
	Bytes   []byte // MarshalBinary of the message; decoded afresh at delivery
	Seq     int
	Release int    // not deliverable before this step (partition / delay)
	Kind    string // "", "dup", "stale", "foreign", "tamper"
	Session string
	Node    *Node // target node (lets several sessions share one network)
}

// Net is the simulated network + scheduler.
type Net struct {
	S      *Source
	R      *Router
	Nodes  []*Node
	Pool   []*Env
	Steps  int
	seq    int
	Log    []string
	Policy Policy
	// Mutate lets a Byzantine node alter / drop / equivocate: called once per (message, addressee)
	// for messages emitted by non-honest nodes. Returning nil drops the message.
	Mutate func(from *Node, m *protocol.Message, to *Node) *protocol.Message
	// PreEmit sees every batch of messages a node produced before they are routed.
	PreEmit func(from *Node, msgs []*protocol.Message)
	// Route decides the addressees of an emitted message (default: every other node of the same Tag).
	Route func(from *Node, m *protocol.Message) []*Node
	// AfterDeliver is called after each delivery (invariants, fault injection).
	AfterDeliver func(e *Env, to *Node)
	// BeforeDeliver may veto (drop) a delivery.
	BeforeDeliver func(e *Env, to *Node) bool
	DupRate       int // per-mille chance to re-enqueue a delivered message
	Faults        map[string]int
	Probes        map[string]int
	CallTimeout   time.Duration
	MaxSteps      int
	Delivered     []string // canonical delivery sequence
	NoLog         bool
}

// NewNet creates an empty world.
func NewNet(s *Source, r *Router) *Net {
	return &Net{S: s, R: r, Faults: map[string]int{}, Probes: map[string]int{}, CallTimeout: 120 * time.Second, MaxSteps: 20000}
}

func (n *Net) Logf(f string, a ...interface{}) {
	if n.NoLog {
		return
	}
	n.Log = append(n.Log, fmt.Sprintf(f, a...))
}

// LibFrame extracts the innermost library function from a panic stack.
func LibFrame(stack string) string {
	lines := strings.Split(stack, "\n")
	seenPanic := false
	for _, l := range lines {
		if strings.HasPrefix(l, "panic(") {
			seenPanic = true
			continue
		}
		if !seenPanic {
			continue
		}
		if strings.HasPrefix(l, "\t") {
			continue
		}
		if strings.Contains(l, "multi-party-sig/verif/") {
			continue
		}
		if strings.Contains(l, "taurusgroup/multi-party-sig/") {
			fn := l
			if i := strings.LastIndex(fn, "("); i > 0 {
				fn = fn[:i]
			}
			fn = strings.TrimPrefix(fn, "github.com/taurusgroup/multi-party-sig/")
			return fn
		}
	}
	// fall back to the first non-runtime frame
	seenPanic = false
	for _, l := range lines {
		if strings.HasPrefix(l, "panic(") {
			seenPanic = true
			continue
		}
		if seenPanic && !strings.HasPrefix(l, "\t") && !strings.HasPrefix(l, "runtime.") && l != "" {
			if i := strings.LastIndex(l, "("); i > 0 {
				return l[:i]
			}
			return l
		}
	}
	return "unknown"
}

// Call runs f (a call into node's handler) with the node's randomness stream selected, on a helper
// goroutine, while draining the node's outgoing channel. Panics are recovered and recorded.
func (n *Net) Call(node *Node, f func()) (msgs []*protocol.Message) {
	pool.SimTaskDepth = 0
	done := make(chan struct{})
	if node.H != nil && node.out == nil && !node.Closed {
		node.out = node.H.Listen()
	}
	old := n.R.Use(node.Rng)
	go func() {
		defer close(done)
		defer func() {
			if p := recover(); p != nil {
				st := string(debug.Stack())
				node.Panic = fmt.Sprint(p)
				node.PanicFn = LibFrame(st)
				if len(st) > 6000 {
					st = st[:6000]
				}
				node.Panic += "\n" + st
			}
		}()
		f()
	}()
	var ch <-chan *protocol.Message
	if node.H != nil && !node.Closed {
		if node.out == nil {
			// fetched once, before any call can hold the handler's mutex
			node.out = node.H.Listen()
		}
		ch = node.out
	}
	timer := time.NewTimer(n.CallTimeout)
	defer timer.Stop()
	finished := false
	for !finished {
		select {
		case m, ok := <-ch:
			if !ok {
				node.Closed = true
				ch = nil
				continue
			}
			msgs = append(msgs, m)
		case <-done:
			finished = true
		case <-timer.C:
			node.Hang = true
			node.Dead = true
			buf := make([]byte, 1<<20)
			nb := runtime.Stack(buf, true)
			for _, g := range strings.Split(string(buf[:nb]), "\n\n") {
				if strings.Contains(g, "taurusgroup/multi-party-sig/pkg/protocol.") && !strings.Contains(g, "sim.(*Net).Call(") {
					if len(g) > 3000 {
						g = g[:3000]
					}
					node.HangStack = g
					break
				}
			}
			n.R.Use(old)
			return msgs
		}
	}
	n.R.Use(old)
	// drain what is left without blocking
	for ch != nil {
		select {
		case m, ok := <-ch:
			if !ok {
				node.Closed = true
				ch = nil
				break
			}
			msgs = append(msgs, m)
		default:
			ch = nil
		}
	}
	if node.Panic != "" {
		node.Dead = true
	}
	// a panic that the handler recovered may have happened inside a pool task (nil pool: the task ran
	// on this goroutine). With a real pool it would have killed the process on a worker goroutine.
	if pool.SimTaskDepth != 0 {
		node.PoolTaskPanics++
		pool.SimTaskDepth = 0
	}
	return msgs
}

// Add registers a node whose handler is built by mk (so that construction randomness comes from the
// node's own stream) and enqueues its first messages.
func (n *Net) Add(id party.ID, rngLabel string, honest bool, tag string, mk func() (protocol.Handler, error)) (*Node, error) {
	node := &Node{ID: id, Rng: NewDRBG(rngLabel), Honest: honest, Tag: tag}
	var err error
	old := n.R.Use(node.Rng)
	done := make(chan struct{})
	// construction runs on a helper goroutine under the watchdog: a constructor that never returns
	// (e.g. one that fills its own outgoing channel before anybody can drain it) is a hang, not a
	// deadlock of the simulator.
	go func() {
		defer close(done)
		defer func() {
			if p := recover(); p != nil {
				st := string(debug.Stack())
				node.Panic = fmt.Sprint(p) + "\n" + st
				node.PanicFn = LibFrame(st)
			}
		}()
		h, e := mk()
		if e != nil || h == nil || reflect.ValueOf(h).IsNil() {
			err = e
			if err == nil {
				err = fmt.Errorf("constructor returned no handler")
			}
			return
		}
		node.H = h
	}()
	select {
	case <-done:
	case <-time.After(n.CallTimeout / 4):
		node.Hang = true
		err = fmt.Errorf("handler construction did not return within the watchdog bound")
	}
	n.R.Use(old)
	if node.Hang {
		node.H = nil
	}
	n.Nodes = append(n.Nodes, node)
	if err != nil || node.H == nil || node.Panic != "" {
		node.Dead = true
		return node, err
	}
	node.initial = n.Call(node, func() {})
	return node, nil
}

// Start emits the messages produced at construction by every node added so far (once per node).
func (n *Net) Start() {
	for _, node := range n.Nodes {
		if node.initial != nil {
			msgs := node.initial
			node.initial = nil
			n.Emit(node, msgs)
		}
	}
}

func canonLess(a, b *protocol.Message) bool {
	if a.RoundNumber != b.RoundNumber {
		return a.RoundNumber < b.RoundNumber
	}
	if a.Broadcast != b.Broadcast {
		return a.Broadcast
	}
	return a.To < b.To
}

// Emit puts the messages a node produced into the pool, once per addressee.
func (n *Net) Emit(from *Node, msgs []*protocol.Message) {
	sort.SliceStable(msgs, func(i, j int) bool { return canonLess(msgs[i], msgs[j]) })
	if n.PreEmit != nil && len(msgs) > 0 {
		n.PreEmit(from, msgs)
	}
	for _, m := range msgs {
		from.Sent = append(from.Sent, m)
		var targets []*Node
		if n.Route != nil {
			targets = n.Route(from, m)
		} else {
			for _, t := range n.Nodes {
				if t != from && t.Tag == from.Tag && m.IsFor(t.ID) {
					targets = append(targets, t)
				}
			}
		}
		for _, t := range targets {
			mm := m
			kind := ""
			if !from.Honest && n.Mutate != nil {
				mm = n.Mutate(from, m, t)
				if mm == nil {
					n.Faults["drop"]++
					continue
				}
				if mm != m {
					kind = "tamper"
				}
			}
			n.Enqueue(from, mm, t, kind)
		}
	}
}

// Enqueue adds one (message, addressee) pair.
func (n *Net) Enqueue(from *Node, m *protocol.Message, to *Node, kind string) *Env {
	b, err := m.MarshalBinary()
	if err != nil {
		panic(fmt.Sprintf("harness: marshal message: %v", err))
	}
	n.seq++
	bp := "p"
	if m.Broadcast {
		bp = "b"
	}
	fromID := party.ID("?")
	tag := ""
	if from != nil {
		fromID = from.ID
		tag = from.Tag
	}
	e := &Env{
		ID:    fmt.Sprintf("%s%s>%s/r%d%s", tag, fromID, to.ID, m.RoundNumber, bp),
		From:  m.From,
		To:    to.ID,
		Round: int(m.RoundNumber),
		Bcast: m.Broadcast,
		Bytes: b,
		Seq:   n.seq,
		Kind:  kind,
		Node:  to,
	}
	n.Pool = append(n.Pool, e)
	return e
}

// Decode turns an envelope back into a fresh message, as an application reading from the wire would.
func (e *Env) Decode() *protocol.Message {
	m, _ := e.DecodeE()
	return m
}

// DecodeE also reports the codec's verdict; an application drops what it cannot decode.
func (e *Env) DecodeE() (*protocol.Message, error) {
	m := &protocol.Message{}
	err := m.UnmarshalBinary(e.Bytes)
	return m, err
}

// Deliver hands one envelope to its addressee.
func (n *Net) Deliver(e *Env) {
	to := e.Node
	n.Steps++
	if to.Dead || to.H == nil {
		return
	}
	if n.BeforeDeliver != nil && !n.BeforeDeliver(e, to) {
		n.Faults["loss"]++
		return
	}
	m, derr := e.DecodeE()
	if derr != nil {
		n.Faults["undecodable_dropped"]++
		return
	}
	to.Recv = append(to.Recv, e)
	n.Delivered = append(n.Delivered, e.ID+e.Kind)
	var can bool
	msgs := n.Call(to, func() {
		can = to.H.CanAccept(m)
		to.H.Accept(m)
	})
	n.Logf("deliver %s%s canAccept=%v emitted=%d closed=%v", e.ID, e.Kind, can, len(msgs), to.Closed)
	n.Emit(to, msgs)
	if n.AfterDeliver != nil {
		n.AfterDeliver(e, to)
	}
}

// Run delivers until the pool is empty (quiescence) or the step bound is hit.
func (n *Net) Run() {
	if n.Policy == nil {
		n.Policy = FIFO{}
	}
	n.Start()
	for len(n.Pool) > 0 && n.Steps < n.MaxSteps {
		i := n.Policy.Next(n)
		if i < 0 || i >= len(n.Pool) {
			i = 0
		}
		e := n.Pool[i]
		n.Pool = append(n.Pool[:i], n.Pool[i+1:]...)
		if n.DupRate > 0 && e.Kind != "dup" && n.S.Bool(n.DupRate, 1000, "dup") {
			d := *e
			d.Kind = "dup"
			n.seq++
			d.Seq = n.seq
			n.Pool = append(n.Pool, &d)
			n.Faults["duplicate"]++
		}
		n.Deliver(e)
	}
}

// Quiescent reports whether nothing is left to deliver.
func (n *Net) Quiescent() bool { return len(n.Pool) == 0 }

// Result returns a node's outcome.
func (node *Node) Result() (interface{}, error) {
	if node.H == nil {
		return nil, fmt.Errorf("no handler")
	}
	return node.H.Result()
}

// Finished: has a value.
func (node *Node) Finished() bool {
	if node.H == nil || node.Dead {
		return false
	}
	v, err := node.H.Result()
	return err == nil && v != nil
}

// NotFinished: Result() still says "not finished".
func IsNotFinished(err error) bool {
	return err != nil && strings.Contains(err.Error(), "protocol: not finished")
}

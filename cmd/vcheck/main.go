// vcheck: driver / worker / replay for the deterministic-simulation checks.
package main

import (
	"bufio"
	"bytes"
	"encoding/json"
	"fmt"
	"io"
	"os"
	"os/exec"
	"path/filepath"
	"runtime"
	"sort"
	"strconv"
	"strings"
	"sync"
	"sync/atomic"
	"syscall"
	"time"

	"github.com/taurusgroup/multi-party-sig/verif/fw"
	_ "github.com/taurusgroup/multi-party-sig/verif/props"
	"github.com/taurusgroup/multi-party-sig/verif/scen"
)

// verifDir is where evidence and replay files go (VERIF_OUT overrides it for background runs that must
// not disturb the registered checks' files).
var verifDir = func() string {
	if d := os.Getenv("VERIF_OUT"); d != "" {
		return d
	}
	return "/verif"
}()

// binDir is the directory of the running driver; external worker binaries are looked up next to it.
func binDir() string {
	exe, err := os.Executable()
	if err != nil {
		return "/verif/.bin"
	}
	return filepath.Dir(exe)
}

func extBin(p *fw.PropDef) string { return filepath.Join(binDir(), filepath.Base(p.External.Bin)) }

func main() {
	// external-worker mode (used for the race-detector build): VERIF_SPEC=worker,prop,tier,seed | case,prop,tier,seed,n | replay,path
	if spec := os.Getenv("VERIF_SPEC"); spec != "" {
		f := strings.Split(spec, ",")
		switch f[0] {
		case "worker":
			os.Unsetenv("VERIF_SPEC")
			worker(os.Getenv("VERIF_SPEC_PROP"), f[1], mustSeed(f[2]))
		case "case":
			p := mustProp(os.Getenv("VERIF_SPEC_PROP"))
			limitMemory()
			selfCheck()
			n, _ := strconv.Atoi(f[3])
			fw.PrintCase(p, f[1], mustSeed(f[2]), n)
		case "replay":
			selfCheck()
			os.Exit(fw.ReplayMain(f[1]))
		}
		return
	}
	if len(os.Args) < 2 {
		usage()
	}
	switch os.Args[1] {
	case "run":
		if len(os.Args) < 4 {
			usage()
		}
		os.Exit(drive(os.Args[2], os.Args[3]))
	case "worker":
		worker(os.Args[2], os.Args[3], mustSeed(os.Args[4]))
	case "case": // single case in a fresh process: prints the result JSON
		p := mustProp(os.Args[2])
		limitMemory()
		selfCheck()
		n, _ := strconv.Atoi(os.Args[5])
		res := fw.RunCase(p, os.Args[3], mustSeed(os.Args[4]), n, nil, true)
		b, _ := json.Marshal(res)
		fmt.Println(string(b))
	case "digest": // digest <PROP> <tier> <seed> <from> <to>
		p := mustProp(os.Args[2])
		selfCheck()
		a, _ := strconv.Atoi(os.Args[5])
		b, _ := strconv.Atoi(os.Args[6])
		fw.PrintDigests(p, os.Args[3], mustSeed(os.Args[4]), a, b)
	case "replay":
		os.Exit(replay(os.Args[2]))
	case "list":
		for _, id := range fw.IDs() {
			fmt.Println(id)
		}
	default:
		usage()
	}
}

func usage() {
	fmt.Fprintln(os.Stderr, "usage: vcheck run <PROP> <quick|thorough> | replay <file> | case <PROP> <tier> <seed> <n> | list")
	os.Exit(2)
}

func mustProp(id string) *fw.PropDef {
	p := fw.Get(id)
	if p == nil {
		fmt.Fprintf(os.Stderr, "unknown property %s\n", id)
		os.Exit(2)
	}
	return p
}

func mustSeed(s string) int64 {
	v, err := strconv.ParseInt(s, 10, 64)
	if err != nil {
		fmt.Fprintf(os.Stderr, "bad seed %q\n", s)
		os.Exit(2)
	}
	return v
}

// limitMemory caps the address space of a worker so that a hostile allocation fails deterministically.
func limitMemory() {
	lim := uint64(6 << 30)
	_ = syscall.Setrlimit(syscall.RLIMIT_AS, &syscall.Rlimit{Cur: lim, Max: lim})
}

func selfCheck() {
	defer func() {
		if x := recover(); x != nil {
			fmt.Fprintf(os.Stderr, "INFRA: reference self-check failed: %v\n", x)
			os.Exit(2)
		}
	}()
	scen.SelfCheck()
}

// ---------------- worker ----------------

func worker(prop, tier string, seed int64) {
	p := mustProp(prop)
	limitMemory()
	selfCheck()
	fw.WorkerLoop(p, tier, seed)
}

// ---------------- known findings ----------------

type knownEntry struct {
	Property string `json:"property"`
	Sig      string `json:"sig"`
	What     string `json:"what"`
}
type knownFile struct {
	Known []knownEntry `json:"known"`
	Fixed []string     `json:"fixed"`
}

func loadKnown() map[string]knownEntry {
	out := map[string]knownEntry{}
	b, err := os.ReadFile("/verif/known_findings.json")
	if err != nil {
		return out
	}
	var kf knownFile
	if err := json.Unmarshal(b, &kf); err != nil {
		fmt.Fprintf(os.Stderr, "INFRA: known_findings.json: %v\n", err)
		os.Exit(2)
	}
	for _, k := range kf.Known {
		out[k.Property+"|"+k.Sig] = k
	}
	return out
}

// ---------------- driver ----------------

type workerOut struct {
	fw.CaseResult
	Replays []*fw.ReplayFile `json:"replays,omitempty"`
}

func drive(prop, tier string) int {
	p := mustProp(prop)
	if tier != "quick" && tier != "thorough" {
		usage()
	}
	seed := int64(1)
	if s := os.Getenv("VERIF_SEED"); s != "" {
		seed = mustSeed(s)
	}
	total := p.Cases(tier)
	if s := os.Getenv("VERIF_CASES"); s != "" {
		total, _ = strconv.Atoi(s)
	}
	wallCap := 20 * time.Minute
	if tier == "thorough" {
		wallCap = 3 * time.Hour
	}
	if s := os.Getenv("VERIF_WALLCAP_S"); s != "" {
		v, _ := strconv.Atoi(s)
		wallCap = time.Duration(v) * time.Second
	}
	caseStall := 30 * time.Minute
	if s := os.Getenv("VERIF_CASE_STALL_S"); s != "" {
		v, _ := strconv.Atoi(s)
		caseStall = time.Duration(v) * time.Second
	}
	W := runtime.NumCPU()
	if s := os.Getenv("VERIF_WORKERS"); s != "" {
		W, _ = strconv.Atoi(s)
	}
	if W > total {
		W = total
	}
	if W < 1 {
		W = 1
	}
	fmt.Printf("VERIF_SEED=%d property=%s tier=%s cases=%d workers=%d\n", seed, prop, tier, total, W)
	start := time.Now()
	known := loadKnown()

	var mu sync.Mutex
	next := 0
	capped := false
	take := func() int {
		mu.Lock()
		defer mu.Unlock()
		if next >= total {
			return -1
		}
		if time.Since(start) > wallCap {
			capped = true
			return -1
		}
		n := next
		next++
		return n
	}
	var results []*workerOut
	var infra []string
	type death struct {
		caseNo int
		stderr string
	}
	var deaths []death
	exe, _ := os.Executable()
	var wg sync.WaitGroup
	for w := 0; w < W; w++ {
		wg.Add(1)
		go func(w int) {
			defer wg.Done()
			for {
				n := take()
				if n < 0 {
					return
				}
				// (re)start a worker process and feed it cases until it dies or we are done
				cmd := exec.Command(exe, "worker", prop, tier, strconv.FormatInt(seed, 10))
				cmd.Env = append(os.Environ(), "GOMAXPROCS=2")
				if p.External != nil {
					cmd = exec.Command(extBin(p), p.External.Args...)
					cmd.Env = append(append(os.Environ(), "GOMAXPROCS=4", p.External.Env+"=worker,"+tier+","+strconv.FormatInt(seed, 10), "VERIF_SPEC_PROP="+prop), p.External.ExtraEnv...)
				}
				stdin, _ := cmd.StdinPipe()
				stdout, _ := cmd.StdoutPipe()
				var errBuf strings.Builder
				cmd.Stderr = &limitedWriter{w: &errBuf, n: 64 << 10}
				if err := cmd.Start(); err != nil {
					mu.Lock()
					infra = append(infra, "cannot start worker: "+err.Error())
					mu.Unlock()
					return
				}
				rd := bufio.NewReaderSize(stdout, 1<<20)
				cur := n
				alive := true
				// stall watchdog: a worker that produces no result for caseStall is killed; the case is
				// reported as infrastructure trouble (exit 2), never as a violation, and not re-executed
				var lastResult atomic.Int64
				var stalled atomic.Bool
				lastResult.Store(time.Now().UnixNano())
				stopWatch := make(chan struct{})
				go func() {
					t := time.NewTicker(10 * time.Second)
					defer t.Stop()
					for {
						select {
						case <-stopWatch:
							return
						case <-t.C:
							if time.Since(time.Unix(0, lastResult.Load())) > caseStall {
								stalled.Store(true)
								_ = cmd.Process.Kill()
								return
							}
						}
					}
				}()
				for alive {
					fmt.Fprintf(stdin, "%d\n", cur)
					got := false
					for {
						line, err := rd.ReadString('\n')
						if err != nil {
							alive = false
							break
						}
						if strings.HasPrefix(line, "R ") {
							var wo workerOut
							if e := json.Unmarshal([]byte(line[2:]), &wo); e != nil {
								mu.Lock()
								infra = append(infra, "bad worker line: "+e.Error())
								mu.Unlock()
							} else {
								mu.Lock()
								results = append(results, &wo)
								mu.Unlock()
							}
							lastResult.Store(time.Now().UnixNano())
							got = true
							break
						}
					}
					if !alive {
						_ = cmd.Wait()
						close(stopWatch)
						if !got {
							mu.Lock()
							if stalled.Load() {
								infra = append(infra, fmt.Sprintf("case %d produced no result within %v: worker killed (harness or library spinning / blocked; run `vcheck case %s %s %d %d` to look at it)", cur, caseStall, prop, tier, seed, cur))
							} else {
								deaths = append(deaths, death{cur, errBuf.String()})
							}
							mu.Unlock()
						}
						break
					}
					cur = take()
					if cur < 0 {
						close(stopWatch)
						stdin.Close()
						_ = cmd.Wait()
						return
					}
				}
			}
		}(w)
	}
	wg.Wait()

	// process deaths: re-execute the journaled case once in a fresh process
	type vio struct {
		sig, detail, replay string
	}
	var vios []vio
	for _, d := range deaths {
		cmd := exec.Command(exe, "case", prop, tier, strconv.FormatInt(seed, 10), strconv.Itoa(d.caseNo))
		cmd.Env = append(os.Environ(), "GOMAXPROCS=2")
		if p.External != nil {
			cmd = exec.Command(extBin(p), p.External.Args...)
			cmd.Env = append(append(os.Environ(), "GOMAXPROCS=4", p.External.Env+"=case,"+tier+","+strconv.FormatInt(seed, 10)+","+strconv.Itoa(d.caseNo), "VERIF_SPEC_PROP="+prop), p.External.ExtraEnv...)
		}
		var eb strings.Builder
		cmd.Stderr = &limitedWriter{w: &eb, n: 64 << 10}
		outB, err := cmd.Output()
		if err == nil {
			// did not reproduce: treat as infrastructure flake, but use its result
			var wo workerOut
			if i := bytes.IndexByte(outB, '{'); i > 0 {
				outB = outB[i:]
			}
			if j := bytes.IndexByte(outB, '\n'); j > 0 {
				outB = outB[:j]
			}
			if json.Unmarshal(outB, &wo.CaseResult) == nil {
				results = append(results, &wo)
			}
			infra = append(infra, fmt.Sprintf("worker died on case %d but the case does not reproduce in a fresh process; first stderr: %s", d.caseNo, firstLines(d.stderr, 5)))
			continue
		}
		sig := "process-death@" + deathFrame(eb.String())
		rf := &fw.ReplayFile{Property: prop, Engine: p.Engine, Tier: tier, Seed: seed, Case: d.caseNo, Signature: sig,
			Detail: "the worker process died (fatal error / panic off the calling goroutine) while executing this case, twice", Death: firstLines(eb.String(), 60)}
		path, _ := fw.WriteReplay(verifDir+"/replays", rf)
		vios = append(vios, vio{sig, rf.Detail, path})
	}

	// hang candidates: re-execute each alone (no other worker running) in a fresh process; only a
	// call that exceeds the watchdog bound again is reported
	hangNotReproduced := 0
	for _, r := range results {
		if !r.HangCandidate {
			continue
		}
		cmd := exec.Command(exe, "case", prop, tier, strconv.FormatInt(seed, 10), strconv.Itoa(r.Case))
		cmd.Env = append(os.Environ(), "GOMAXPROCS=4")
		if p.External != nil {
			cmd = exec.Command(extBin(p), p.External.Args...)
			cmd.Env = append(append(os.Environ(), "GOMAXPROCS=4", p.External.Env+"=case,"+tier+","+strconv.FormatInt(seed, 10)+","+strconv.Itoa(r.Case), "VERIF_SPEC_PROP="+prop), p.External.ExtraEnv...)
		}
		outB, _ := cmd.Output()
		if i := bytes.IndexByte(outB, '{'); i > 0 {
			outB = outB[i:]
		}
		if j := bytes.IndexByte(outB, '\n'); j > 0 {
			outB = outB[:j]
		}
		var again fw.CaseResult
		confirmed := false
		if json.Unmarshal(outB, &again) == nil {
			for _, v := range again.Violations {
				if strings.HasPrefix(v.Sig, "hang") || strings.Contains(v.Sig, "/hang") {
					confirmed = true
					rf := &fw.ReplayFile{Property: prop, Engine: p.Engine, Tier: tier, Seed: seed, Case: r.Case, Signature: v.Sig, Detail: v.Detail + "\n  (watchdog exceeded in a loaded worker AND when re-executed alone; not minimised)", Desc: again.Desc, Decisions: again.Decisions, OrigLen: len(again.Decisions)}
					path, _ := fw.WriteReplay(verifDir+"/replays", rf)
					vios = append(vios, vio{v.Sig, rf.Detail, path})
				}
			}
		}
		if !confirmed {
			hangNotReproduced++
		}
	}

	// aggregate
	sort.Slice(results, func(i, j int) bool { return results[i].Case < results[j].Case })
	distinct := map[string]bool{}
	faults := map[string]int{}
	probes := map[string]int{}
	states := map[string]bool{}
	traces := map[string]bool{}
	steps := 0
	nontrivial := 0
	var samples []interface{}
	kinds := map[string]int{}
	for _, r := range results {
		if r.Infra != "" {
			infra = append(infra, fmt.Sprintf("case %d: %s", r.Case, r.Infra))
			continue
		}
		steps += r.Steps
		traces[r.TraceHash] = true
		for k, v := range r.Faults {
			faults[k] += v
		}
		for k, v := range r.Probes {
			probes[k] += v
		}
		for _, s := range r.States {
			states[s] = true
		}
		if r.NonTrivial {
			nontrivial++
			distinct[r.DistinctID] = true
		}
		if r.Desc != "" {
			kinds[firstWord(r.Desc)]++
		}
		if r.Sample != nil && len(samples) < 6 && (r.Case%maxInt(1, total/6) == 0 || len(samples) == 0) {
			r.Sample["case"] = r.Case
			r.Sample["decision_trace_len"] = len(r.Decisions)
			samples = append(samples, r.Sample)
		}
		for _, rf := range r.Replays {
			path, err := fw.WriteReplay(verifDir+"/replays", rf)
			if err != nil {
				infra = append(infra, "cannot write replay: "+err.Error())
			}
			vios = append(vios, vio{rf.Signature, rf.Detail, path})
		}
		if len(r.Violations) > 0 && len(r.Replays) == 0 {
			for _, v := range r.Violations {
				vios = append(vios, vio{v.Sig, v.Detail, ""})
			}
		}
	}
	wall := time.Since(start).Seconds()
	// report
	exit := 0
	reportedKnown := map[string]bool{}
	reportedVio := map[string]int{}
	nVio := 0
	sort.Slice(vios, func(i, j int) bool { return vios[i].sig < vios[j].sig })
	for _, v := range vios {
		if k, ok := known[prop+"|"+v.sig]; ok {
			if !reportedKnown[v.sig] {
				reportedKnown[v.sig] = true
				fmt.Printf("KNOWN-FINDING: property=%s %s [sig=%s]\n", prop, k.What, v.sig)
			}
			continue
		}
		nVio++
		reportedVio[v.sig]++
		if reportedVio[v.sig] <= 3 {
			fmt.Printf("VIOLATION property=%s replay=%s\n  signature: %s\n  %s\n", prop, v.replay, v.sig, firstLines(v.detail, 6))
		}
		exit = 1
	}
	for s, n := range reportedVio {
		if n > 3 {
			fmt.Printf("  (%d more violations with signature %s)\n", n-3, s)
		}
	}
	for name, v := range probes {
		_ = name
		_ = v
	}
	if len(samples) == 0 {
		samples = append(samples, map[string]interface{}{"note": "no sample recorded"})
	}
	cov := map[string]interface{}{
		"evaluations":              len(results),
		"distinct_nontrivial":      len(distinct),
		"nontrivial_cases":         nontrivial,
		"rule":                     p.Rule,
		"samples":                  samples,
		"exhaustive":               false,
		"cases_planned":            total,
		"wall_cap_hit":             capped,
		"logical_steps_simulated":  steps,
		"simulated_time_note":      "the library reads no clock; simulated time is reported as logical steps (delivery events / API calls / scheduler decisions)",
		"runs_per_hour":            int(float64(len(results)) / wall * 3600),
		"seeds_per_hour_note":      "one VERIF_SEED per invocation; every case derives its own sub-seed H(seed, property, case#)",
		"distinct_decision_traces": len(traces),
		"fault_kinds_fired":        faults,
		"probes":                   probes,
		"scenario_kinds":           kinds,
		"distinct_states":          len(states),
		"distinct_states_by_kind":  statesByKind(states),
		"components":               p.RealStub,
		"workers":                  W,
		"known_findings_seen":      keys(reportedKnown),
	}
	if p.Extra != nil {
		p.Extra(cov)
	}
	ev := map[string]interface{}{
		"property_id": prop,
		"tier":        tier,
		"seed":        seed,
		"level":       p.Level,
		"coverage":    cov,
		"assumptions": p.Assumptions,
		"wall_s":      wall,
		"violations":  nVio,
	}
	_ = os.MkdirAll(verifDir+"/evidence", 0o755)
	b, _ := json.MarshalIndent(ev, "", " ")
	if err := os.WriteFile(verifDir+"/evidence/"+prop+".json", b, 0o644); err != nil {
		infra = append(infra, "cannot write evidence: "+err.Error())
	}
	for name, v := range probes {
		if v == 0 {
			fmt.Printf("warning: probe %s stayed at zero\n", name)
		}
	}
	fmt.Printf("property=%s tier=%s cases=%d nontrivial=%d distinct=%d steps=%d faults=%v wall=%.1fs violations=%d\n",
		prop, tier, len(results), nontrivial, len(distinct), steps, faults, wall, nVio)
	if len(infra) > 0 {
		for i, s := range infra {
			if i < 10 {
				fmt.Fprintf(os.Stderr, "INFRA: %s\n", firstLines(s, 30))
			}
		}
		if exit == 0 {
			return 2
		}
	}
	if len(results) < total && !capped && exit == 0 {
		fmt.Fprintf(os.Stderr, "INFRA: only %d of %d cases produced a result\n", len(results), total)
		return 2
	}
	return exit
}

func keys(m map[string]bool) []string {
	out := []string{}
	for k := range m {
		out = append(out, k)
	}
	sort.Strings(out)
	return out
}

func maxInt(a, b int) int {
	if a > b {
		return a
	}
	return b
}

func firstWord(s string) string {
	if i := strings.Index(s, " "); i > 0 {
		return s[:i]
	}
	return s
}

func firstLines(s string, n int) string {
	l := strings.Split(s, "\n")
	if len(l) > n {
		l = l[:n]
	}
	return strings.Join(l, "\n  ")
}

// deathFrame finds the innermost library frame in a crash dump written by the Go runtime.
func deathFrame(stderr string) string {
	lines := strings.Split(stderr, "\n")
	kind := "unknown"
	for _, l := range lines {
		if strings.HasPrefix(l, "fatal error:") || strings.HasPrefix(l, "panic:") {
			kind = strings.TrimSpace(l)
			if len(kind) > 60 {
				kind = kind[:60]
			}
			break
		}
	}
	for _, l := range lines {
		if strings.HasPrefix(l, "github.com/taurusgroup/multi-party-sig/") && !strings.Contains(l, "multi-party-sig/verif/") {
			fn := l
			if i := strings.LastIndex(fn, "("); i > 0 {
				fn = fn[:i]
			}
			return strings.TrimPrefix(fn, "github.com/taurusgroup/multi-party-sig/") + " [" + kind + "]"
		}
	}
	return kind
}

type limitedWriter struct {
	w io.Writer
	n int
}

func (l *limitedWriter) Write(p []byte) (int, error) {
	if l.n > 0 {
		q := p
		if len(q) > l.n {
			q = q[:l.n]
		}
		l.w.Write(q)
		l.n -= len(q)
	}
	return len(p), nil
}

// ---------------- replay ----------------

func replay(path string) int {
	b, err := os.ReadFile(path)
	if err != nil {
		fmt.Fprintln(os.Stderr, "INFRA:", err)
		return 2
	}
	var rf fw.ReplayFile
	if err := json.Unmarshal(b, &rf); err != nil {
		fmt.Fprintln(os.Stderr, "INFRA:", err)
		return 2
	}
	p := mustProp(rf.Property)
	if p.External != nil {
		cmd := exec.Command(extBin(p), p.External.Args...)
		cmd.Env = append(append(os.Environ(), p.External.Env+"=replay,"+path, "VERIF_SPEC_PROP="+rf.Property), p.External.ExtraEnv...)
		cmd.Stdout, cmd.Stderr = os.Stdout, os.Stderr
		if err := cmd.Run(); err != nil {
			if ee, ok := err.(*exec.ExitError); ok {
				return ee.ExitCode()
			}
			fmt.Fprintln(os.Stderr, "INFRA:", err)
			return 2
		}
		return 0
	}
	selfCheck()
	var dec []int
	if rf.Death == "" {
		dec = rf.Decisions
		if dec == nil {
			dec = []int{}
		}
	}
	res := fw.RunCase(p, rf.Tier, rf.Seed, rf.Case, dec, true)
	if res.Infra != "" {
		fmt.Fprintln(os.Stderr, "INFRA:", res.Infra)
		return 2
	}
	for _, l := range tail(res.Log, 60) {
		fmt.Println("  log:", l)
	}
	for _, v := range res.Violations {
		if v.Sig == rf.Signature {
			fmt.Printf("VIOLATION property=%s replay=%s\n  signature: %s\n  %s\n", rf.Property, path, v.Sig, firstLines(v.Detail, 12))
			return 1
		}
	}
	for _, v := range res.Violations {
		fmt.Printf("VIOLATION property=%s replay=%s\n  signature: %s (recorded: %s)\n  %s\n", rf.Property, path, v.Sig, rf.Signature, firstLines(v.Detail, 12))
		return 1
	}
	fmt.Printf("replay of %s: no violation (recorded signature %s)\n", path, rf.Signature)
	return 0
}

func tail(s []string, n int) []string {
	if len(s) > n {
		return s[len(s)-n:]
	}
	return s
}

// statesByKind counts distinct state digests per prefix (the part before the first ':').
func statesByKind(states map[string]bool) map[string]int {
	out := map[string]int{}
	for s := range states {
		k := s
		if i := strings.Index(s, ":"); i > 0 {
			k = s[:i]
		}
		out[k]++
	}
	return out
}

// genprimes writes fixtures/primes.json: pre-generated safe-prime pairs for the Paillier prime hook.
package main

import (
	"encoding/json"
	"fmt"
	"os"
	"strconv"

	"github.com/taurusgroup/multi-party-sig/pkg/paillier"
	"github.com/taurusgroup/multi-party-sig/pkg/pool"
)

func main() {
	n, _ := strconv.Atoi(os.Args[1])
	pl := pool.NewPool(0)
	defer pl.TearDown()
	var out [][2]string
	for i := 0; i < n; i++ {
		sk := paillier.NewSecretKey(pl)
		out = append(out, [2]string{sk.P().Hex(), sk.Q().Hex()})
		fmt.Fprintf(os.Stderr, ".")
	}
	b, _ := json.Marshal(out)
	os.WriteFile(os.Args[2], b, 0o644)
}

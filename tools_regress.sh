#!/bin/bash
# tools_regress.sh [list]: apply every stored seeded change in turn to /repo, run the check that owns
# its fault class at the quick tier, undo it. Writes /verif/seeded/REGRESSION.txt. Nothing else may
# build from /repo while this runs.
LIST=${1:-/tmp/regress_list.txt}
OUT=/verif/seeded/REGRESSION.txt
echo "# regression of all stored seeded changes against the final checks ($(date -u +%FT%TZ), /repo $(git -C /repo log --format=%h -1), /verif $(git -C /verif log --format=%h -1))" > $OUT
while read sid chk tier; do
  [ -z "$sid" ] && continue
  if [ "$tier" != quick ]; then echo "$sid: skipped here (caught by the $tier tier only)" >> $OUT; continue; fi
  line=$(/verif/tools_recheck.sh $sid $chk quick 2>&1 | tail -n 1)
  echo "$line" >> $OUT
  if [ -n "$(git -C /repo status --short)" ]; then git -C /repo checkout -- . ; fi
done < $LIST
echo "# done $(date -u +%FT%TZ)" >> $OUT

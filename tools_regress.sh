#!/bin/bash
# tools_regress.sh [list]: apply every stored seeded change in turn to /repo, run the check that owns
# its fault class at the quick tier (case counts capped for the slower checks, see CAP below), undo it.
# Writes /verif/seeded/REGRESSION.txt. Nothing else may build from /repo while this runs.
LIST=${1:-/tmp/regress_list.txt}
OUT=/verif/seeded/REGRESSION.txt
declare -A CAP=( [C01]=700 [C03]=1500 [C04]=1500 [C06]=1200 [C15]=2000 [C17]=1200 [C08]=600 [C14]=700 )
echo "# regression of all stored seeded changes against the final checks ($(date -u +%FT%TZ), /repo $(git -C /repo log --format=%h -1), /verif $(git -C /verif log --format=%h -1)); quick tier, VERIF_CASES capped: ${!CAP[@]} -> ${CAP[@]}" > $OUT
while read sid chk tier; do
  [ -z "$sid" ] && continue
  if [ "$tier" = notcaught ]; then echo "$sid: not caught by any check (documented in DESIGN.md)" >> $OUT; continue; fi
  if [ "$tier" != quick ]; then echo "$sid: skipped here (caught by the $tier tier only)" >> $OUT; continue; fi
  cap=${CAP[$chk]:-}
  line=$(VERIF_CASES=$cap /verif/tools_recheck.sh $sid $chk quick 2>&1 | tail -n 1)
  echo "$line" >> $OUT
  if [ -n "$(git -C /repo status --short)" ]; then git -C /repo checkout -- . ; fi
done < $LIST
echo "# done $(date -u +%FT%TZ)" >> $OUT

#!/bin/bash
# tools_recheck.sh <seed-id> <check> [tier]: apply a stored seeded change to /repo, run one check, undo.
SID=$1; CHK=$2; TIER=${3:-quick}
cd /verif
git -C /repo apply /verif/seeded/$SID/patch.diff || { echo "PATCH DOES NOT APPLY"; exit 2; }
rm -rf /verif/replays
./check $CHK $TIER > /verif/seeded/$SID/check_$CHK.log 2>&1; rc=$?
sigs=$(grep "signature:" /verif/seeded/$SID/check_$CHK.log | sed 's/^ *signature: //' | sort | uniq -c | sort -rn | head -4 | tr '\n' ';')
git -C /repo checkout -- .
echo "$SID: ./check $CHK $TIER -> rc=$rc $sigs"
echo "$SID recheck $CHK $TIER rc=$rc $sigs" >> /verif/seeded/RESULTS.txt

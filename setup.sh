#!/bin/bash
# Builds the three harness binaries from files on disk only (offline).
set -e
cd /verif
export GOFLAGS=-mod=mod GOPROXY=off GOSUMDB=off GOTOOLCHAIN=local
mkdir -p .bin .bin/race evidence
CGO_ENABLED=0 go build -tags verif -o .bin/vcheck ./cmd/vcheck
CGO_ENABLED=1 go build -race -tags verif -o .bin/vcheck-race ./cmd/vcheck
cp /repo/go.sum poolsim/go.sum
(cd poolsim && go1.26.8 test -tags verif -c -o /verif/.bin/poolsim.test .)
echo setup ok

package props

import (
	"errors"
	"fmt"
	"reflect"
	"strings"

	"github.com/cronokirby/saferith"
	"github.com/taurusgroup/multi-party-sig/pkg/ecdsa"
	"github.com/taurusgroup/multi-party-sig/pkg/math/curve"
	"github.com/taurusgroup/multi-party-sig/pkg/party"
	"github.com/taurusgroup/multi-party-sig/pkg/protocol"
	"github.com/taurusgroup/multi-party-sig/verif/fw"
	"github.com/taurusgroup/multi-party-sig/verif/mut"
	"github.com/taurusgroup/multi-party-sig/verif/scen"
	"github.com/taurusgroup/multi-party-sig/verif/sim"
)

// currentRoundOf returns the cheater's live round object (harness-side introspection).
func currentRoundOf(h protocol.Handler) reflect.Value {
	return scen.UnexportedField(h, "currentRound")
}

func roundTypeName(h protocol.Handler) string {
	v := currentRoundOf(h)
	if v.IsNil() {
		return ""
	}
	return v.Elem().Type().String()
}

// roundField finds an exported field by name on the (pointer-embedded) chain of round structs.
func roundField(h protocol.Handler, name string) (reflect.Value, bool) {
	v := currentRoundOf(h).Elem() // *presignN
	for v.Kind() == reflect.Ptr {
		v = v.Elem()
	}
	var find func(v reflect.Value) (reflect.Value, bool)
	find = func(v reflect.Value) (reflect.Value, bool) {
		if v.Kind() != reflect.Struct {
			return reflect.Value{}, false
		}
		t := v.Type()
		for i := 0; i < v.NumField(); i++ {
			f := t.Field(i)
			if f.Name == name && !f.Anonymous {
				return v.Field(i), true
			}
		}
		for i := 0; i < v.NumField(); i++ {
			f := t.Field(i)
			if f.Anonymous {
				fv := v.Field(i)
				if fv.Kind() == reflect.Ptr {
					if fv.IsNil() {
						continue
					}
					fv = fv.Elem()
				}
				if r, ok := find(fv); ok {
					return r, true
				}
			}
		}
		return reflect.Value{}, false
	}
	return find(v)
}

// runC04State: a CMP presigner deviates in its *state* (x, gamma, k, or its sigma share) while all of
// its individual proofs stay valid; every honest signer must single it out, in the offline, full and
// online variants.
func runC04State(c *fw.Ctx) {
	variant := c.S.Draw(3, "variant") // 0 offline, 1 full, 2 online
	kind := []scen.Kind{scen.KPresign, scen.KPresignFull, scen.KPresignOnline}[variant]
	sc := scen.DrawScenario(c, scen.ScenarioOpts{CMPPerMille: 1000, MinN: 2, MaxN: 3, Kinds: []scen.Kind{kind}})
	parts := sc.Parts
	cheater := parts[c.S.Draw(len(parts), "cheater")]
	var honest []party.ID
	for _, id := range parts {
		if id != cheater {
			honest = append(honest, id)
		}
	}
	devs := []string{"x-during-round3", "gamma-during-round3", "x-from-round3-on", "k-during-round3"}
	dev := devs[c.S.Draw(len(devs), "deviation")]
	if variant == 2 {
		dev = []string{"sigma-share-chi", "sigma-share-k"}[c.S.Draw(2, "deviation")]
		// the cheater starts the online phase with a presignature whose own share is off by one
		pre := sc.Pre[cheater]
		cp := *pre
		one := scen.LibScalar(bigOne)
		if dev == "sigma-share-chi" {
			cp.ChiShare = curve.Secp256k1{}.NewScalar().Set(pre.ChiShare).Add(one)
		} else {
			cp.KShare = curve.Secp256k1{}.NewScalar().Set(pre.KShare).Add(one)
		}
		np := map[party.ID]*ecdsa.PreSignature{}
		// between the offline and the online phase a presignature is normally stored: in half of the
		// worlds every honest signer works with a stored-and-restored copy
		stored := c.S.Draw(2, "presignatures-stored-and-restored") == 1
		for k, v := range sc.Pre {
			np[k] = v
			if stored && k != cheater {
				if b, err := scen.Persist(v); err == nil {
					if r, rerr := scen.Restore(v, b); rerr == nil {
						np[k] = r.(*ecdsa.PreSignature)
						c.Probe("online_phase_with_restored_presignature", 1)
					}
				}
			}
		}
		np[cheater] = &cp
		sc.Pre = np
	}
	sess := scen.NewSessionL(c, "run", sc.Mk(), func(id party.ID) bool { return id != cheater }, nil)
	n := sess.Net
	cn := sess.Nodes[cheater]
	applied, restored := false, false
	n.Mutate = func(from *sim.Node, m *protocol.Message, to *sim.Node) *protocol.Message {
		if m.RoundNumber == 0 {
			return nil // a real attacker does not announce itself
		}
		return m
	}
	perturb := func(sign int) bool {
		switch dev {
		case "x-during-round3", "x-from-round3-on":
			f, ok := roundField(cn.H, "SecretECDSA")
			if !ok {
				scen.Fatalf("C04: field SecretECDSA not found on %s", roundTypeName(cn.H))
			}
			x := f.Interface().(curve.Scalar)
			d := scen.LibScalar(bigOne)
			if sign < 0 {
				d = d.Negate()
			}
			f.Set(reflect.ValueOf(curve.Secp256k1{}.NewScalar().Set(x).Add(d)))
		case "gamma-during-round3", "k-during-round3":
			name := "GammaShare"
			if dev == "k-during-round3" {
				name = "KShare"
			}
			f, ok := roundField(cn.H, name)
			if !ok {
				scen.Fatalf("C04: field %s not found on %s", name, roundTypeName(cn.H))
			}
			switch g := f.Interface().(type) {
			case *saferith.Int:
				one := new(saferith.Int).SetUint64(1)
				if sign < 0 {
					one.Neg(1)
				}
				f.Set(reflect.ValueOf(new(saferith.Int).Add(g, one, -1)))
			case curve.Scalar:
				d := scen.LibScalar(bigOne)
				if sign < 0 {
					d = d.Negate()
				}
				f.Set(reflect.ValueOf(curve.Secp256k1{}.NewScalar().Set(g).Add(d)))
			default:
				scen.Fatalf("C04: field %s has unexpected type %T", name, g)
			}
		}
		return true
	}
	if variant != 2 {
		n.BeforeDeliver = func(e *sim.Env, to *sim.Node) bool {
			if to != cn || cn.Dead || cn.H == nil {
				return true
			}
			rt := roundTypeName(cn.H)
			if !applied && strings.HasSuffix(rt, ".presign3") {
				applied = perturb(-1)
			} else if applied && !restored && dev != "x-from-round3-on" && strings.HasSuffix(rt, ".presign4") {
				perturb(+1)
				restored = true
			}
			return true
		}
	} else {
		applied = true
	}
	sess.Run(c, true)
	c.Res.Desc = fmt.Sprintf("state-level %s cheater=%q deviation=%s policy=%s", sc.Name, cheater, dev, n.Policy.Name())
	c.Res.DistinctID = fmt.Sprintf("state/%s/%s/cheater-pos-%d", sc.Kind, dev, indexOf(parts, cheater))
	if !applied {
		return
	}
	c.Res.NonTrivial = true
	c.Fault("presigner_state_deviation:"+dev, 1)
	b := &Byz{C: c, Sc: sc, Sess: sess, Cheater: cheater, Honest: honest}
	b.Applied = &mut.Result{Op: "state:" + dev}
	b.AppliedAt = "r3/bfalse/to="
	sigBase := fmt.Sprintf("state-deviation/%s/%s", sc.Kind, dev)
	// the abort rounds must not crash an honest signer
	for _, id := range honest {
		nd := sess.Nodes[id]
		if nd.Panic != "" {
			first := nd.Panic
			if i := strings.Index(first, "\n"); i > 0 {
				first = first[:i]
			}
			c.Violate(sigBase+"/honest-signer-crashed@"+nd.PanicFn, "honest signer %q panicked instead of naming the deviating signer %q: %s\n%s", id, cheater, first, trim5(nd.Panic))
		}
		if nd.Hang {
			c.Violate(sigBase+"/honest-signer-hung", "honest signer %q hung", id)
		}
	}
	if len(c.Res.Violations) > 0 {
		return
	}
	b.CheckBlame()
	// a signer whose delta / chi / sigma contribution is inconsistent must be singled out by EVERY honest signer
	outs := b.outcomes()
	anyValue := false
	for _, o := range outs {
		if o.value != nil {
			anyValue = true
		}
	}
	if anyValue {
		// the deviation went unnoticed: then the result must at least be correct (C03's concern); for the
		// offline variant a presignature is not judged here
		c.Probe("state_deviation_without_effect", 1)
		b.CheckResults()
		return
	}
	for _, o := range outs {
		switch {
		case o.pending:
			c.Violate(sigBase+"/cheater-not-singled-out-pending", "honest signer %q is still waiting at quiescence: the deviating signer %q was not identified (other outcomes: %s)", o.id, cheater, outcomeString(outs))
		case o.err != nil:
			var pe protocol.Error
			if errors.As(o.err, &pe) {
				relayed := pe.Err != nil && strings.HasPrefix(pe.Err.Error(), "aborted by other party")
				if relayed {
					continue
				}
				if strings.Contains(pe.Err.Error(), "failed to validate Delta MtA Nth proof") && len(pe.Culprits) == 1 && pe.Culprits[0] != cheater {
					continue // reported by CheckBlame under its own, site-specific signature
				}
				if len(pe.Culprits) != 1 || pe.Culprits[0] != cheater {
					c.Violate(sigBase+"/cheater-not-singled-out", "honest signer %q ended with %q naming %v; the deviating signer is %q", o.id, trimS(pe.Err.Error(), 160), pe.Culprits, cheater)
				} else {
					c.Probe("cheater_singled_out", 1)
				}
			}
		}
	}
	c.Res.Sample = map[string]interface{}{"desc": c.Res.Desc, "outcomes": outcomeString(outs)}
}

func outcomeString(outs []outcome) string {
	s := ""
	for _, o := range outs {
		switch {
		case o.dead:
			s += fmt.Sprintf("%s:crashed ", o.id)
		case o.value != nil:
			s += fmt.Sprintf("%s:value ", o.id)
		case o.pending:
			s += fmt.Sprintf("%s:pending ", o.id)
		default:
			s += fmt.Sprintf("%s:error(%s) ", o.id, trimS(o.err.Error(), 80))
		}
	}
	return s
}

func indexOf(ids []party.ID, x party.ID) int {
	for i, id := range ids {
		if id == x {
			return i
		}
	}
	return -1
}

func reflectValue(v interface{}) reflect.Value { return reflect.ValueOf(v) }

package props

import "github.com/taurusgroup/multi-party-sig/verif/fw"

func runC04State(c *fw.Ctx) {}

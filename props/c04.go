package props

import (
	"fmt"
	"os"

	"github.com/taurusgroup/multi-party-sig/verif/fw"
	"github.com/taurusgroup/multi-party-sig/verif/mut"
)

func init() {
	fw.Register(&fw.PropDef{
		ID: "C04", Level: "fault_enumeration", Engine: "netsim+byzantine",
		Cases: func(tier string) int {
			if tier == "thorough" {
				return 50000
			}
			return 2500
		},
		Run:  runC04,
		Rule: "same fault catalogue as C03 (one deviating party, one alteration per world) plus state-level deviations of a CMP presigner (wrong k / gamma / chi / delta / sigma share, offline, full and online variants); the oracle inspects protocol.Error.Culprits at every honest party: self-detected errors name only the deviating party, decode/verify failures name exactly it, relayed abort notices name their origin, no honest party is ever named. Non-trivial = the alteration fired and at least one honest party ended with an error carrying culprit structure. Distinct = (protocol, kind, message kind, operator, path class).",
		Assumptions: []string{
			"exactly one deviating party per world",
			"TwoPartyHandler errors carry no culprit list; Doerner worlds only contribute the no-crash / relayed-notice parts",
		},
		RealStub: byzStub,
	})
}

func runC04(c *fw.Ctx) {
	if c.S.Bool(cmpRate(c, 30), 1000, "state-level") || os.Getenv("VERIF_C04_STATE") != "" {
		runC04State(c)
		return
	}
	if c.S.Draw(8, "equivocation-world") == 7 {
		// the deviation is an equivocation (two versions of one broadcast, both individually valid):
		// honest parties notice each other's different views - and must not blame each other
		runEquivocation(c, true)
		return
	}
	b := NewByz(c, byzOpts(c, 10), mut.SemanticOps, false)
	b.Headers = true
	if len(b.Targets) == 0 {
		return
	}
	b.Start()
	b.Run()
	c.Res.Desc = fmt.Sprintf("%s cheater=%q target=%s liar=%v alteration=%v", b.Sc.Name, b.Cheater, b.TargetKey, b.Liar, b.Applied)
	if b.Applied == nil {
		return
	}
	c.Res.DistinctID = b.where()
	c.Fault("byzantine_alteration:"+b.Applied.Op, 1)
	b.CheckBlame()
	c.Res.NonTrivial = c.Res.Probes["honest_errors_examined"] > 0
	c.Res.Sample = map[string]interface{}{"desc": c.Res.Desc, "probes": c.Res.Probes}
}

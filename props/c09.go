package props

import (
	"bytes"
	"fmt"
	"github.com/taurusgroup/multi-party-sig/verif/mut"
	"strings"

	"github.com/taurusgroup/multi-party-sig/pkg/ecdsa"
	"github.com/taurusgroup/multi-party-sig/pkg/party"
	"github.com/taurusgroup/multi-party-sig/pkg/protocol"
	"github.com/taurusgroup/multi-party-sig/verif/fw"
	"github.com/taurusgroup/multi-party-sig/verif/scen"
	"github.com/taurusgroup/multi-party-sig/verif/sim"
)

func init() {
	fw.Register(&fw.PropDef{
		ID: "C09", Level: "fault_enumeration", Engine: "netsim",
		Cases: func(tier string) int {
			if tier == "thorough" {
				return 30000
			}
			return 1500
		},
		Run:  runC09,
		Rule: "lattice = pairs of sessions (X, Y) differing in exactly one parameter: session id {nil vs empty, prefix-related, one byte longer/shorter, unrelated}, protocol {frost vs frost-taproot keygen, keygen vs refresh, doerner keygen vs sign/refresh, cmp sign vs presign-full, cmp presign-offline vs full, cmp keygen vs refresh}, participant set {adversarial sets with equal concatenation such as {a,bc} vs {ab,c}; one member replaced}, threshold, and for CMP: signed message, key-material epoch, presignature; plus 'replay under another sender's name' inside one session. Per case: (i) session tags of X and Y must differ, (ii) every message of X is injected at drawn points of a run of Y: CanAccept must be false and Y's results and emitted messages must equal a control run with the same randomness, (iii) for sender replay, the recipient must not finish with a wrong value. Non-trivial = foreign messages were actually presented to live handlers of Y. Distinct = (parameter, variant, protocol, kind). The curve cannot vary (one curve offered).",
		Assumptions: []string{
			"only one curve (secp256k1) exists, so the curve dimension is a single point and is not exercised",
			"X's messages are addressed to the party of Y with the same identifier (if any)",
		},
		RealStub: map[string][]string{
			"real": {"session tag derivation (round.NewSession)", "CanAccept header filter", "handlers", "round code"},
			"stub": {"network", "randomness", "CMP material from dealer", "prime search"},
		},
	})
}

type c09pair struct {
	param, variant string
	Y, X           *scen.Scenario
}

func cloneScn(s *scen.Scenario) *scen.Scenario {
	x := *s
	return &x
}

func drawC09Pair(c *fw.Ctx) *c09pair {
	params := []string{"session-id", "protocol", "participants", "threshold", "cmp-message", "cmp-epoch", "cmp-presignature", "cmp-derived-key"}
	p := params[c.S.Draw(4, "param")]
	if cmpEnabled && c.S.Bool(cmpRate(c, 15), 1000, "cmp-param") {
		p = params[4+c.S.Draw(4, "cmp-param-kind")]
	}
	switch p {
	case "session-id":
		Y := scen.DrawScenario(c, scen.ScenarioOpts{CMPPerMille: cmpRate(c, 4), AllowXor: true, MaxN: 4})
		X := cloneScn(Y)
		v := c.S.Draw(6, "sid-variant")
		name := ""
		switch v {
		case 0:
			Y.SID, X.SID, name = nil, []byte{}, "nil-vs-empty"
		case 1:
			X.SID, name = append(append([]byte{}, Y.SID...), 'x'), "one-byte-longer"
		case 2:
			X.SID, name = append([]byte{}, Y.SID[:len(Y.SID)-1]...), "one-byte-shorter"
		case 3:
			Y.SID, X.SID, name = []byte("A"), []byte("AA"), "A-vs-AA"
		case 4:
			Y.SID, X.SID, name = nil, []byte("Protocol ID"), "nil-vs-domain-string"
		default:
			X.SID, name = []byte(c.Label("other-sid")), "unrelated"
		}
		return &c09pair{p, name, Y, X}
	case "protocol":
		v := c.S.Draw(8, "proto-variant")
		switch v {
		case 6, 7: // the same refresh / sign over a plain and over a taproot key of the same parties
			kind := []scen.Kind{scen.KRefresh, scen.KSign}[v-6]
			Y := scen.DrawScenario(c, scen.ScenarioOpts{OnlyMulti: true, MaxN: 4, Kinds: []scen.Kind{kind}})
			X := cloneScn(Y)
			X.Proto = scen.FROST + scen.FROSTTaproot - Y.Proto
			X.Mat = scen.PrepMaterial(c, X.Proto, X.IDs, X.T, "prep-x")
			X.Y, X.HasY = X.Mat.PublicKey(X.IDs[0]), true
			return &c09pair{p, "frost-" + kind.String() + "-vs-taproot-" + kind.String(), Y, X}
		case 0: // frost keygen vs frost-taproot keygen
			Y := scen.DrawScenario(c, scen.ScenarioOpts{OnlyMulti: true, MaxN: 4, Kinds: []scen.Kind{scen.KKeygen}})
			X := cloneScn(Y)
			X.Proto = scen.FROST + scen.FROSTTaproot - Y.Proto
			return &c09pair{p, "frost-keygen-vs-taproot-keygen", Y, X}
		case 1: // keygen vs refresh (frost family)
			Y := scen.DrawScenario(c, scen.ScenarioOpts{OnlyMulti: true, MaxN: 4, Kinds: []scen.Kind{scen.KRefresh}})
			X := cloneScn(Y)
			X.Kind = scen.KKeygen
			if c.S.Draw(2, "swap") == 1 {
				return &c09pair{p, "frost-refresh-into-keygen", X, Y}
			}
			return &c09pair{p, "frost-keygen-into-refresh", Y, X}
		case 2, 3: // doerner keygen vs sign / refresh
			Y := scen.DrawScenario(c, scen.ScenarioOpts{Kinds: []scen.Kind{[]scen.Kind{scen.KSign, scen.KRefresh}[v-2]}})
			for Y.Proto != scen.Doerner {
				Y = forceDoerner(c, []scen.Kind{scen.KSign, scen.KRefresh}[v-2])
			}
			X := cloneScn(Y)
			X.Kind = scen.KKeygen
			if c.S.Draw(2, "swap") == 1 {
				return &c09pair{p, "doerner-" + Y.Kind.String() + "-into-keygen", X, Y}
			}
			return &c09pair{p, "doerner-keygen-into-" + Y.Kind.String(), Y, X}
		case 4: // frost sign vs taproot sign needs two materials: use keygen-kind pair instead for taproot refresh
			Y := scen.DrawScenario(c, scen.ScenarioOpts{OnlyMulti: true, MaxN: 4, Kinds: []scen.Kind{scen.KSign}})
			X := cloneScn(Y)
			X.Kind = scen.KRefresh
			return &c09pair{p, "refresh-into-sign", Y, X}
		default: // cmp sign vs presign-full (same message), only when CMP is drawn
			if cmpEnabled && c.S.Bool(cmpRate(c, 60), 1000, "cmp-proto") {
				Y := scen.DrawScenario(c, scen.ScenarioOpts{CMPPerMille: 1000, MaxN: 3, Kinds: []scen.Kind{scen.KSign}})
				X := cloneScn(Y)
				X.Kind = scen.KPresignFull
				return &c09pair{p, "cmp-presign-full-into-sign", Y, X}
			}
			Y := scen.DrawScenario(c, scen.ScenarioOpts{OnlyMulti: true, MaxN: 4, Kinds: []scen.Kind{scen.KRefresh}})
			X := cloneScn(Y)
			X.Kind = scen.KKeygen
			X.Proto = scen.FROST + scen.FROSTTaproot - Y.Proto
			return &c09pair{p, "other-family-keygen-into-refresh", Y, X}
		}
	case "participants":
		// adversarially related identifier sets
		sets := [][2][]party.ID{
			{{"a", "bc"}, {"ab", "c"}},
			{{"a", "b", "cd"}, {"a", "bc", "d"}},
			{{"a", "bcd", "e"}, {"ab", "cd", "e"}},
			{{"a", "b", "c"}, {"a", "b", "d"}},
			{{"a", "b"}, {"a", "b", "c"}},
			{{"x", "xy", "z"}, {"x", "xyz", "zz"}},
		}
		k := c.S.Draw(len(sets), "idsets")
		pr := scen.Proto(c.S.Draw(2, "proto"))
		useXor := c.S.Draw(3, "xor") == 2
		mk := func(ids []party.ID) *scen.Scenario {
			s := &scen.Scenario{Kind: scen.KKeygen, Proto: pr, N: len(ids), T: 1, IDs: ids, Parts: ids, SID: []byte(c.Label("sid", "main"))}
			if useXor {
				s.Kind = scen.KXor
			}
			if s.T > len(ids)-1 {
				s.T = len(ids) - 1
			}
			s.Name = s.String()
			return s
		}
		return &c09pair{p, fmt.Sprintf("%q-vs-%q", sets[k][0], sets[k][1]), mk(sets[k][0]), mk(sets[k][1])}
	case "threshold":
		Y := scen.DrawScenario(c, scen.ScenarioOpts{OnlyMulti: true, MinN: 3, MaxN: 4, Kinds: []scen.Kind{scen.KKeygen}})
		X := cloneScn(Y)
		X.T = (Y.T + 1 + c.S.Draw(Y.N-1, "other-t")) % Y.N
		if X.T == Y.T {
			X.T = (Y.T + 1) % Y.N
		}
		return &c09pair{p, "keygen-threshold", Y, X}
	case "cmp-message":
		Y := scen.DrawScenario(c, scen.ScenarioOpts{CMPPerMille: 1000, MaxN: 3, Kinds: []scen.Kind{scen.KSign, scen.KPresignFull}})
		X := cloneScn(Y)
		X.Msg = append([]byte{}, Y.Msg...)
		X.Msg[len(X.Msg)-1] ^= 1
		return &c09pair{p, Y.Kind.String(), Y, X}
	case "cmp-epoch":
		Y := scen.DrawScenario(c, scen.ScenarioOpts{CMPPerMille: 1000, MaxN: 3, Kinds: []scen.Kind{scen.KSign, scen.KRefresh, scen.KPresign}})
		X := cloneScn(Y)
		X.Mat = scen.DealCMP(c, Y.IDs, Y.T, "other-epoch")
		return &c09pair{p, Y.Kind.String(), Y, X}
	case "cmp-derived-key":
		// key material that differs ONLY in the ECDSA shares / public key: a parent key and its BIP-32 child
		// (same RID, Paillier, Pedersen, ElGamal, threshold, parties)
		Y := scen.DrawScenario(c, scen.ScenarioOpts{CMPPerMille: 1000, MaxN: 3, Kinds: []scen.Kind{scen.KSign, scen.KRefresh, scen.KPresign}})
		X := cloneScn(Y)
		child, errs := Y.Mat.DeriveChild(uint32(c.S.Draw(5, "index")))
		if len(errs) > 0 {
			return nil
		}
		X.Mat = child
		if c.S.Draw(2, "swap") == 1 {
			Y, X = X, Y
		}
		return &c09pair{p, Y.Kind.String(), Y, X}
	case "cmp-presignature":
		Y := scen.DrawScenario(c, scen.ScenarioOpts{CMPPerMille: 1000, MaxN: 2, Kinds: []scen.Kind{scen.KPresignOnline}})
		X := cloneScn(Y)
		// a second presignature from the same material
		ps := scen.NewSession(c, "prep-presign2", Y.Mat.Clone().PresignMk(Y.Parts, []byte(c.Label("sid", "prep-presign2"))), nil)
		ps.Net.Policy = sim.FIFO{}
		ps.Net.Run()
		vals, errs := ps.Results()
		if len(errs) > 0 {
			scen.Fatalf("second presign failed: %v", errs)
		}
		X.Pre = map[party.ID]*ecdsa.PreSignature{}
		for id, v := range vals {
			X.Pre[id] = v.(*ecdsa.PreSignature)
		}
		return &c09pair{p, "online", Y, X}
	}
	return nil
}

func forceDoerner(c *fw.Ctx, k scen.Kind) *scen.Scenario {
	ids := scen.DrawIDs(c.S, 2)
	s := &scen.Scenario{Kind: k, Proto: scen.Doerner, N: 2, T: 1, IDs: ids, Parts: ids, SID: []byte(c.Label("sid", "main"))}
	s.Mat = scen.PrepMaterial(c, scen.Doerner, ids, 1, "prep")
	s.Y, s.HasY = s.Mat.PublicKey(ids[0]), true
	s.Msg = scen.DrawMsg(c)
	s.Name = s.String()
	return s
}

func firstSSID(s *scen.Session) []byte {
	for _, id := range s.Order {
		for _, m := range s.Nodes[id].Sent {
			return m.SSID
		}
	}
	return nil
}

func runC09(c *fw.Ctx) {
	if c.S.Draw(6, "c09-mode") == 5 {
		if c.S.Draw(2, "replay-kind") == 1 {
			runC09CommitmentReplay(c)
			return
		}
		runC09SenderReplay(c)
		return
	}
	pr := drawC09Pair(c)
	if pr == nil {
		return
	}
	Y, X := pr.Y, pr.X
	sig := fmt.Sprintf("%s/%s/%s", pr.param, pr.variant, Y.Proto)
	c.Res.Desc = fmt.Sprintf("param=%s variant=%s Y=%s X=%s", pr.param, pr.variant, Y.Name, X.String())
	c.Res.DistinctID = sig + "/" + Y.Kind.String()
	// X: run to collect its messages
	xs := scen.NewSession(c, "x", X.Mk(), nil)
	xs.Net.Policy = sim.FIFO{}
	xs.Net.Run()
	c.Res.Steps += xs.Net.Steps
	// control run of Y
	ctl := scen.NewSession(c, "run", Y.Mk(), nil)
	ctl.Net.Policy = sim.FIFO{}
	ctl.Net.Run()
	c.Res.Steps += ctl.Net.Steps
	if len(xs.Errs) > 0 || len(ctl.Errs) > 0 {
		c.Probe("pair_could_not_start", 1)
		return
	}
	// (i) session tags differ
	sx, sy := firstSSID(xs), firstSSID(ctl)
	if sx != nil && sy != nil && bytes.Equal(sx, sy) {
		c.Violate("same-session-tag/"+sig, "sessions differing only in %s (%s) derive the same session tag %x\n  Y: %s (ids %v sid %q)\n  X: %s (ids %v sid %q)", pr.param, pr.variant, sy[:8], Y.Name, Y.Parts, Y.SID, X.String(), X.Parts, X.SID)
	}
	c.Probe("ssid_pairs_compared", 1)
	// (i-b) so do the Fiat-Shamir contexts from which proofs, commitments and echo hashes are derived:
	// the session tag is an unauthenticated header, what binds a proof to its session is this state
	for _, id := range Y.Parts {
		mkx, okx := X.Mk()[id]
		mky, oky := Y.Mk()[id]
		if !okx || !oky {
			continue
		}
		rx, ry := sim.NewDRBG(c.Label("ctx-x", id)), sim.NewDRBG(c.Label("ctx-y", id))
		old := c.R.Use(rx)
		hx, ex := mkx()
		c.R.Use(ry)
		hy, ey := mky()
		c.R.Use(old)
		if ex != nil || ey != nil || hx == nil || hy == nil {
			break
		}
		cx, cfx := scen.FSContext(hx, id)
		cy, cfy := scen.FSContext(hy, id)
		if cx == nil || cy == nil {
			c.Probe("fs_context_unreadable", 1)
			break
		}
		c.Probe("fs_context_pairs_compared", 1)
		if bytes.Equal(cx, cy) || (cfx != nil && bytes.Equal(cfx, cfy)) {
			c.Violate("same-proof-context/"+sig, "sessions differing only in %s (%s) start party %q with the same Fiat-Shamir context %x: a proof or commitment made in one verifies in the other once the (unauthenticated) session tag in the header is rewritten\n  Y: %s\n  X: %s", pr.param, pr.variant, id, cy[:8], Y.Name, X.String())
		}
		break // one common party is enough
	}
	// (ii) inject every message of X into a run of Y
	ex := scen.NewSession(c, "run", Y.Mk(), nil)
	ex.Net.Policy = sim.DrawPolicy(ex.Net)
	injected := 0
	span := 3 * len(ex.Order) * len(ex.Order) * 3
	// an abort notice of session X (round 0, carrying X's session tag): one party of X is stopped
	if len(xs.Order) > 0 {
		xn := xs.Nodes[xs.Order[c.S.Draw(len(xs.Order), "x-stopper")]]
		if xn.H != nil && !xn.Dead {
			// a fresh instance of that party, stopped while running
			if h2, err := X.Mk()[xn.ID](); err == nil && h2 != nil {
				tmp := &sim.Node{ID: xn.ID, H: h2, Rng: sim.NewDRBG(c.Label("x-stop", xn.ID)), Honest: true}
				msgs := xs.Net.Call(tmp, func() { h2.Stop() })
				for _, m := range msgs {
					if m.RoundNumber == 0 {
						xn.Sent = append(xn.Sent, m)
						c.Fault("foreign_abort_notice_presented", 1)
					}
				}
			}
		}
	}
	for _, id := range xs.Order {
		for _, m := range xs.Nodes[id].Sent {
			for _, tid := range ex.Order {
				if !m.IsFor(tid) {
					continue
				}
				e := ex.Net.Enqueue(nil, m, ex.Nodes[tid], "foreign")
				e.Release = c.S.Draw(span, "inject-at")
				injected++
			}
		}
	}
	accepted := 0
	ex.Net.BeforeDeliver = func(e *sim.Env, to *sim.Node) bool {
		if e.Kind == "foreign" {
			m := e.Decode()
			if to.H.CanAccept(m) {
				accepted++
				if accepted == 1 {
					c.Violate("foreign-message-accepted/"+sig, "CanAccept is true for a round-%d message of session X (%s) presented to party %q of session Y (%s); they differ only in %s (%s)", m.RoundNumber, X.String(), to.ID, Y.Name, pr.param, pr.variant)
				}
			}
		}
		return true
	}
	ex.Net.Run()
	c.Absorb(ex.Net)
	c.Fault("foreign_session_message_presented", injected)
	c.Res.NonTrivial = injected > 0
	if ex.CheckCrash(c, "run of Y with X's messages injected") {
		return
	}
	cv, ce := ctl.Results()
	vv, ve := ex.Results()
	for _, id := range ex.Order {
		if (ce[id] == nil) != (ve[id] == nil) || scen.ResultDigest(Y.Proto, cv[id]) != scen.ResultDigest(Y.Proto, vv[id]) {
			c.Violate("foreign-message-changed-outcome/"+sig, "party %q of Y: outcome differs from the control run after X's messages were delivered (control err=%v, with injection err=%v)", id, ce[id], ve[id])
			break
		}
		if !equalStrings(sentKeys(ex.Nodes[id]), sentKeys(ctl.Nodes[id])) {
			c.Violate("foreign-message-changed-emissions/"+sig, "party %q of Y emitted different messages than in the control run after X's messages were delivered\n  with: %v\n  ctl:  %v", id, diffStrings(sentKeys(ex.Nodes[id]), sentKeys(ctl.Nodes[id])), diffStrings(sentKeys(ctl.Nodes[id]), sentKeys(ex.Nodes[id])))
			break
		}
	}
	c.Res.Sample = map[string]interface{}{"desc": c.Res.Desc, "foreign_messages_presented": injected, "accepted": accepted}
}

// runC09SenderReplay: a message of the session is replayed under another sender's name before that
// sender's genuine message arrives (first message wins). The recipient must not end with a wrong value.
func runC09SenderReplay(c *fw.Ctx) {
	sc := scen.DrawScenario(c, scen.ScenarioOpts{CMPPerMille: cmpRate(c, 6), MinN: 3, MaxN: 4, OnlyMulti: true})
	ctl := scen.NewSession(c, "run", sc.Mk(), nil)
	ctl.Net.Policy = sim.FIFO{}
	ctl.Net.Run()
	c.Res.Steps += ctl.Net.Steps
	// pick a message (sender p) and another party p2 to impersonate, and a victim
	type cand struct {
		m *protocol.Message
	}
	var cands []*protocol.Message
	for _, id := range ctl.Order {
		for _, m := range ctl.Nodes[id].Sent {
			if m.RoundNumber > 0 {
				cands = append(cands, m)
			}
		}
	}
	if len(cands) == 0 {
		return
	}
	m := cands[c.S.Draw(len(cands), "replayed-message")]
	var others []party.ID
	for _, id := range sc.Parts {
		if id != m.From {
			others = append(others, id)
		}
	}
	p2 := others[c.S.Draw(len(others), "impersonated")]
	var victims []party.ID
	for _, id := range sc.Parts {
		if id != p2 && id != m.From && (m.To == "" || m.To == id) {
			victims = append(victims, id)
		}
	}
	if len(victims) == 0 {
		// p2p message addressed to p2 itself: redirect to any third party
		for _, id := range sc.Parts {
			if id != p2 && id != m.From {
				victims = append(victims, id)
			}
		}
	}
	victim := victims[c.S.Draw(len(victims), "victim")]
	fm := *m
	fm.From = p2
	if fm.To != "" {
		fm.To = victim
	}
	ex := scen.NewSession(c, "run", sc.Mk(), nil)
	ex.Net.Policy = sim.Random{}
	// deliver the forged message to the victim first
	ex.Net.Start()
	e := ex.Net.Enqueue(nil, &fm, ex.Nodes[victim], "forged-sender")
	ex.Net.Pool = append([]*sim.Env{e}, ex.Net.Pool[:len(ex.Net.Pool)-1]...)
	ex.Net.Policy = firstThen{first: e, then: sim.Random{}}
	ex.Net.Run()
	c.Absorb(ex.Net)
	c.Fault("replay_under_other_senders_name", 1)
	c.Res.NonTrivial = true
	c.Res.Desc = fmt.Sprintf("sender-replay %s message r%d b=%v of %q replayed as %q to %q", sc.Name, m.RoundNumber, m.Broadcast, m.From, p2, victim)
	c.Res.DistinctID = fmt.Sprintf("sender-replay/%s/%s/r%d/b%v", sc.Proto, sc.Kind, m.RoundNumber, m.Broadcast)
	if ex.CheckCrash(c, "sender replay") {
		return
	}
	// the victim (and everybody else) must not finish with a wrong value
	b := &Byz{C: c, Sc: sc, Sess: ex, Cheater: "", Honest: sc.Parts}
	b.AppliedAt = fmt.Sprintf("r%d/b%v/to=", m.RoundNumber, m.Broadcast)
	b.Applied = nil
	vals, _ := ex.Results()
	if len(vals) > 0 {
		bb := *b
		bb.Applied = &c09applied
		bb.AppliedAt = fmt.Sprintf("r%d/b%v/to=%s", m.RoundNumber, m.Broadcast, fm.To)
		bb.CheckResults()
	}
	c.Res.Sample = map[string]interface{}{"desc": c.Res.Desc}
}

// firstThen delivers one chosen envelope first, then follows another policy.
type firstThen struct {
	first *sim.Env
	then  sim.Policy
}

func (firstThen) Name() string { return "forged-first" }
func (p firstThen) Next(n *sim.Net) int {
	for i, e := range n.Pool {
		if e == p.first {
			return i
		}
	}
	return p.then.Next(n)
}

func diffStrings(a, b []string) []string {
	in := map[string]bool{}
	for _, x := range b {
		in[x] = true
	}
	var out []string
	for _, x := range a {
		if !in[x] {
			out = append(out, x)
		}
	}
	return out
}

// runC09CommitmentReplay: "a commitment made by one party does not verify for another party". One
// participant (c) mirrors another (a) inside ONE session: in every message of c that carries a
// commitment, the commitment is replaced by a's; the message in which c has to open it carries a's
// opening instead (a's values are known in advance here because a is honest and its commit-reveal
// values do not depend on c - a rushing adversary would wait for them). If an honest party goes on to
// finish, it has accepted a's opening under c's name: c's "contribution" is a copy that it never
// committed to.
func runC09CommitmentReplay(c *fw.Ctx) {
	sc := scen.DrawScenario(c, scen.ScenarioOpts{CMPPerMille: cmpRate(c, 6), MinN: 3, MaxN: 4, OnlyMulti: true, Kinds: []scen.Kind{scen.KKeygen, scen.KRefresh}})
	ctl := scen.NewSession(c, "run", sc.Mk(), nil)
	ctl.Net.Policy = sim.FIFO{}
	ctl.Net.Run()
	c.Res.Steps += ctl.Net.Steps
	parts := sc.Parts
	cheater := parts[c.S.Draw(len(parts), "mirroring-party")]
	var others []party.ID
	for _, id := range parts {
		if id != cheater {
			others = append(others, id)
		}
	}
	mirrored := others[c.S.Draw(len(others), "mirrored-party")]
	isCommit := func(name string) bool { return strings.Contains(strings.ToLower(name), "commit") }
	isOpening := func(name string) bool { return strings.Contains(strings.ToLower(name), "decommit") }
	// a's messages by (round, broadcast, recipient)
	src := map[string]map[interface{}]interface{}{}
	for _, m := range ctl.Nodes[mirrored].Sent {
		if t, err := mut.Decode(m.Data); err == nil {
			if mp, ok := t.(map[interface{}]interface{}); ok {
				src[fmt.Sprintf("r%d/b%v/%s", m.RoundNumber, m.Broadcast, m.To)] = mp
			}
		}
	}
	ex := scen.NewSession(c, "run", sc.Mk(), func(id party.ID) bool { return id != cheater })
	mirroredCommit, mirroredOpening := 0, 0
	// c's own handler hashes what it would have sent: from the round after its first altered broadcast it
	// quotes the honest parties' view hash instead (they all hold the same one), waiting for it if need be
	firstAltered := 0
	honestBV := map[int][]byte{}
	type heldT struct {
		m  *protocol.Message
		to *sim.Node
	}
	held := map[int][]heldT{}
	ex.Net.PreEmit = func(from *sim.Node, msgs []*protocol.Message) {
		if from.ID == cheater {
			return
		}
		for _, m := range msgs {
			r := int(m.RoundNumber)
			if m.BroadcastVerification != nil && honestBV[r] == nil {
				honestBV[r] = m.BroadcastVerification
				for _, h := range held[r] {
					mm := *h.m
					mm.BroadcastVerification = honestBV[r]
					ex.Net.Enqueue(ex.Nodes[cheater], &mm, h.to, "tamper")
				}
				delete(held, r)
			}
		}
	}
	inner := func(from *sim.Node, m *protocol.Message, to *sim.Node) *protocol.Message { return m }
	ex.Net.Mutate = func(from *sim.Node, m *protocol.Message, to *sim.Node) *protocol.Message {
		if from.ID != cheater {
			return m
		}
		if m.RoundNumber == 0 {
			return nil
		}
		out := inner(from, m, to)
		r := int(m.RoundNumber)
		if out != m && firstAltered == 0 {
			firstAltered = r
		}
		if firstAltered > 0 && r > firstAltered && out.BroadcastVerification != nil {
			if bv, ok := honestBV[r]; ok {
				mm := *out
				mm.BroadcastVerification = bv
				return &mm
			}
			held[r] = append(held[r], heldT{out, to})
			return nil
		}
		return out
	}
	inner = func(from *sim.Node, m *protocol.Message, to *sim.Node) *protocol.Message {
		t, err := mut.Decode(m.Data)
		mp, ok := t.(map[interface{}]interface{})
		if err != nil || !ok {
			return m
		}
		key := fmt.Sprintf("r%d/b%v/%s", m.RoundNumber, m.Broadcast, m.To)
		if m.To == mirrored {
			return m // a's own message to itself does not exist
		}
		a, have := src[key]
		if !have {
			return m
		}
		opening := false
		for k := range mp {
			if ks, isS := k.(string); isS && isOpening(ks) {
				opening = true
			}
		}
		changed := false
		out := map[interface{}]interface{}{}
		for k, v := range mp {
			out[k] = v
			ks, isS := k.(string)
			if !isS {
				continue
			}
			if av, has := a[k]; has && (opening || isCommit(ks)) {
				out[k] = av
				changed = true
			}
		}
		if !changed {
			return m
		}
		var data []byte
		func() {
			defer func() { _ = recover() }()
			data = mut.Encode(out)
		}()
		if data == nil || bytes.Equal(data, m.Data) {
			return m
		}
		if opening {
			mirroredOpening++
		} else {
			mirroredCommit++
		}
		mm := *m
		mm.Data = data
		return &mm
	}
	ex.Run(c, true)
	c.Res.Desc = fmt.Sprintf("commitment-replay %s: %q mirrors %q (commitments %d, openings %d) policy=%s", sc.Name, cheater, mirrored, mirroredCommit, mirroredOpening, ex.Net.Policy.Name())
	c.Res.DistinctID = fmt.Sprintf("commitment-replay/%s/%s", sc.Proto, sc.Kind)
	if mirroredCommit == 0 || mirroredOpening == 0 {
		c.Probe("no_commit_reveal_pair_to_mirror", 1)
		return
	}
	c.Res.NonTrivial = true
	c.Fault("commitment_and_opening_of_a_peer_replayed", 1)
	if ex.CheckCrash(c, "commitment replay") {
		return
	}
	vals, _ := ex.Results()
	for _, id := range ex.Order {
		if id == cheater {
			continue
		}
		if _, fin := vals[id]; fin {
			c.Violate(fmt.Sprintf("commitment-of-another-party-accepted/%s/%s", sc.Proto, sc.Kind), "honest party %q completed the session although %q had replaced its commitment by %q's and opened it with %q's opening: a commitment made by one party verified for another (%s)", id, cheater, mirrored, mirrored, c.Res.Desc)
			return
		}
	}
	c.Res.Sample = map[string]interface{}{"desc": c.Res.Desc}
}

package props

import (
	"bytes"
	"fmt"
	"github.com/fxamacker/cbor/v2"
	"github.com/taurusgroup/multi-party-sig/pkg/math/curve"
	"github.com/taurusgroup/multi-party-sig/protocols/frost"
	"io"

	"github.com/taurusgroup/multi-party-sig/pkg/party"
	"github.com/taurusgroup/multi-party-sig/pkg/protocol"
	"github.com/taurusgroup/multi-party-sig/pkg/taproot"
	"github.com/taurusgroup/multi-party-sig/verif/fw"
	"github.com/taurusgroup/multi-party-sig/verif/scen"
	"github.com/taurusgroup/multi-party-sig/verif/sim"
)

func init() {
	fw.Register(&fw.PropDef{
		ID: "C11", Level: "fault_enumeration", Engine: "netsim+rngfault",
		Cases: func(tier string) int {
			if tier == "thorough" {
				return 60000
			}
			return 3000
		},
		Run:  runC11,
		Rule: "catalogue = (variant frost / frost-taproot / stand-alone BIP-340) x (differing dimension: message, signer set, session id, protocol variant, secret share of another party / refreshed / derived share, or nothing) x (random source fault: constant bytes, all-zero bytes, stream restarting identically for both attempts, honest). One case = one pair of signing attempts differing in exactly the chosen dimension; the same signer's published nonce commitments (D_i, E_i of the round-2 broadcast; R.x of a BIP-340 signature) are extracted from the wire and must differ. Under the honest source they must differ even for identical inputs. Non-trivial = both attempts really published commitments under the chosen fault. Distinct = (variant, dimension, rng fault).",
		Assumptions: []string{
			"the RNG fault is injected on the crypto/rand.Reader seam (and the explicit reader argument of taproot.Sign); 'identical bytes in both attempts' is realised by restarting the same DRBG stream",
		},
		RealStub: map[string][]string{
			"real": {"frost sign round 1 (nonce derivation)", "taproot.SecretKey.Sign", "handlers", "codecs"},
			"stub": {"randomness source (faulty on purpose)", "network (only the first broadcast is needed)"},
		},
	})
}

func nonceCommitments(c *fw.Ctx, id party.ID, mk scen.Mk, label, mode string) (D, E []byte, err error) {
	n := sim.NewNet(c.S, c.R)
	n.NoLog = true
	rng := sim.NewDRBG(label)
	rng.Mode = mode
	node := &sim.Node{ID: id, Rng: rng, Honest: true}
	var h protocol.Handler
	msgsNode := node
	old := c.R.Use(rng)
	h, err = mk()
	c.R.Use(old)
	if err != nil {
		return nil, nil, err
	}
	msgsNode.H = h
	msgs := n.Call(node, func() {})
	for _, m := range msgs {
		if m.Broadcast && m.RoundNumber == 2 {
			// (a plain decode: the structure-aware decoder of package mut would descend into a point whose
			// 33 bytes happen to parse as an encoding of their own - seen in 6 of 60000 thorough cases)
			var t map[string][]byte
			if derr := cbor.Unmarshal(m.Data, &t); derr != nil {
				return nil, nil, derr
			}
			db, ok1 := t["D_i"]
			eb, ok2 := t["E_i"]
			if !ok1 || !ok2 || len(db) != 33 || len(eb) != 33 {
				scen.Fatalf("C11: cannot find D_i/E_i in the round-2 broadcast (fields renamed?): %x -> %#v", m.Data, t)
			}
			return db, eb, nil
		}
	}
	return nil, nil, fmt.Errorf("no round-2 broadcast emitted")
}

type constReader struct{ b byte }

func (r constReader) Read(p []byte) (int, error) {
	for i := range p {
		p[i] = r.b
	}
	return len(p), nil
}

func runC11(c *fw.Ctx) {
	if c.S.Draw(5, "c11-variant") == 4 {
		runC11Taproot(c)
		return
	}
	p := scen.Proto(c.S.Draw(2, "proto")) // frost / frost-taproot
	n := 2 + c.S.Draw(4, "n")
	t := c.S.Draw(n, "t")
	ids := scen.DrawIDs(c.S, n)
	// identifiers of different lengths whose concatenations collide: {a, b, cd} and {a, bc, d} are two
	// different quorums of one key - the signer set must enter the nonce derivation unambiguously
	ambiguous := c.S.Draw(8, "ambiguous-ids") == 7
	if ambiguous {
		n, t = 5, 2
		ids = []party.ID{"a", "b", "bc", "cd", "d"}
	}
	m := scen.PrepMaterial(c, p, ids, t, "prep")
	signers := scen.DrawSubset(c.S, ids, t+1)
	if len(signers) < 2 && n >= 2 {
		signers = ids[:2]
	}
	me := signers[c.S.Draw(len(signers), "signer")]
	if ambiguous {
		signers, me = []party.ID{"a", "b", "cd"}, "a"
	}
	msg := scen.DrawMsg(c)
	sid := []byte(c.Label("sid", "sign"))
	dims := []string{"message", "signer-set", "session-id", "share-other-party", "share-refreshed", "variant", "nothing", "share-derived"}
	dim := dims[c.S.Draw(len(dims), "dimension")]
	if ambiguous {
		dim = "signer-set"
	}
	faults := []string{"const", "zero", "repeat", "honest"}
	fault := faults[c.S.Draw(len(faults), "rng-fault")]
	if dim == "nothing" {
		fault = "honest"
	}
	// attempt A
	mA, meA, signersA, msgA, sidA := m, me, signers, msg, sid
	// attempt B: identical except for dim
	mB, meB, signersB, msgB, sidB := m, me, signers, msg, sid
	switch dim {
	case "message":
		msgB = append([]byte{}, msg...)
		k := c.S.Draw(len(msgB), "msg-byte")
		msgB[k] ^= 1 << uint(c.S.Draw(8, "msg-bit"))
	case "signer-set":
		// another valid signer set containing me
		var alt []party.ID
		if ambiguous {
			signersB = []party.ID{"a", "bc", "d"}
			break
		}
		for try := 0; try < 8; try++ {
			alt = scen.DrawSubset(c.S, ids, t+1)
			has := false
			for _, id := range alt {
				if id == me {
					has = true
				}
			}
			if has && fmtIDs(alt) != fmtIDs(signers) && len(alt) >= 1 {
				break
			}
			alt = nil
		}
		if alt == nil {
			dim = "session-id"
			sidB = append(append([]byte{}, sid...), 1)
		} else {
			signersB = alt
		}
	case "session-id":
		switch c.S.Draw(3, "sid-variant") {
		case 0:
			sidB = append(append([]byte{}, sid...), 1)
		case 1:
			sidA, sidB = nil, []byte{}
		default:
			sidB = []byte(c.Label("other-sid"))
		}
	case "share-other-party":
		var others []party.ID
		for _, id := range signers {
			if id != me {
				others = append(others, id)
			}
		}
		if len(others) == 0 || t == 0 { // t=0: every party holds the same share
			dim = "message"
			msgB = append([]byte{}, msg...)
			msgB[0] ^= 1
		} else {
			// same session seen from another signer: different share, everything else equal
			meB = others[c.S.Draw(len(others), "other")]
		}
	case "share-refreshed":
		if t == 0 {
			// a degree-0 sharing cannot change: fall back to the message dimension
			dim = "message"
			msgB = append([]byte{}, msg...)
			msgB[0] ^= 1
			break
		}
		rs := scen.NewSession(c, "rf", m.Clone().RefreshMk([]byte(c.Label("sid", "rf"))), nil)
		rs.Net.Policy = sim.FIFO{}
		rs.Net.Run()
		vals, errs := rs.Results()
		if len(errs) > 0 {
			scen.Fatalf("C11: prerequisite refresh failed: %v", errs)
		}
		mB = scen.Collect(p, ids, t, vals)
	case "share-derived":
		d, errs := m.DeriveChild(uint32(1 + c.S.Draw(5, "index")))
		if len(errs) > 0 {
			// derivation unavailable (see C14): fall back
			dim = "message"
			msgB = append([]byte{}, msg...)
			msgB[0] ^= 1
		} else {
			mB = d
		}
	case "variant":
		// the same share used under both protocol variants: every taproot key share is also a valid
		// plain one (same secret share and table, the x-only key lifted to its even-y point). Attempt A
		// signs with frost.SignTaproot, attempt B with frost.Sign, everything else equal.
		if p != scen.FROSTTaproot {
			p = scen.FROSTTaproot
			m = scen.PrepMaterial(c, p, ids, t, "prep-taproot")
			mA = m
		}
		plain := &scen.Material{Proto: scen.FROST, IDs: m.IDs, T: m.T, Cfg: map[party.ID]interface{}{}}
		okAll := true
		for _, id := range ids {
			tc := m.Cfg[id].(*frost.TaprootConfig)
			Y, err := curve.Secp256k1{}.LiftX(tc.PublicKey)
			if err != nil {
				okAll = false
				break
			}
			vs := map[party.ID]curve.Point{}
			for k, v := range tc.VerificationShares {
				vs[k] = v
			}
			plain.Cfg[id] = &frost.Config{ID: tc.ID, Threshold: tc.Threshold, PrivateShare: tc.PrivateShare, PublicKey: Y, ChainKey: tc.ChainKey, VerificationShares: party.NewPointMap(vs)}
		}
		if !okAll {
			dim = "session-id"
			sidB = append(append([]byte{}, sid...), 2)
		} else {
			mB = plain
		}
	}
	labelA := c.Label("rng", "A")
	labelB := c.Label("rng", "B")
	mode := ""
	switch fault {
	case "const":
		mode = "const"
	case "zero":
		mode = "zero"
	case "repeat":
		labelB = labelA
	}
	mkA := mA.Clone().SignMk(signersA, msgA, sidA, scen.SignPlain)[meA]
	mkB := mB.Clone().SignMk(signersB, msgB, sidB, scen.SignPlain)[meB]
	DA, EA, errA := nonceCommitments(c, meA, mkA, labelA, mode)
	DB, EB, errB := nonceCommitments(c, meB, mkB, labelB, mode)
	c.Res.Desc = fmt.Sprintf("%s n=%d t=%d dimension=%s rng=%s", p, n, t, dim, fault)
	c.Res.DistinctID = fmt.Sprintf("%s/%s/%s", p, dim, fault)
	if errA != nil || errB != nil {
		c.Probe("attempt_could_not_start", 1)
		return
	}
	c.Res.NonTrivial = true
	c.Fault("rng_"+fault, 1)
	if bytes.Equal(DA, DB) || bytes.Equal(EA, EB) || bytes.Equal(DA, EB) || bytes.Equal(EA, DB) {
		c.Violate(fmt.Sprintf("nonce-reuse/%s/%s/rng-%s", p, dim, fault), "two signing attempts differing only in %s published the same nonce commitment under a %s random source\n  A: D=%x E=%x\n  B: D=%x E=%x", dim, fault, DA, EA, DB, EB)
	}
	if bytes.Equal(DA, EA) {
		c.Violate(fmt.Sprintf("nonce-d-equals-e/%s/rng-%s", p, fault), "D_i == E_i in one attempt")
	}
	c.Res.Sample = map[string]interface{}{"desc": c.Res.Desc, "A": fmt.Sprintf("D=%x", DA[:8]), "B": fmt.Sprintf("D=%x", DB[:8])}
}

func runC11Taproot(c *fw.Ctx) {
	dims := []string{"message", "key", "nothing-nil-reader", "nothing-honest"}
	dim := dims[c.S.Draw(len(dims), "dimension")]
	faults := []string{"const", "zero", "repeat"}
	fault := faults[c.S.Draw(len(faults), "rng-fault")]
	keyA := make([]byte, 32)
	copy(keyA, []byte(c.Label("taproot-key")))
	keyA[0] &= 0x7f
	keyB := append([]byte{}, keyA...)
	msgA := scen.DrawMsg(c)
	msgB := append([]byte{}, msgA...)
	var rA, rB io.Reader
	switch fault {
	case "const":
		rA, rB = constReader{0x5a}, constReader{0x5a}
	case "zero":
		rA, rB = constReader{0}, constReader{0}
	case "repeat":
		rA, rB = sim.NewDRBG(c.Label("t")), sim.NewDRBG(c.Label("t"))
	}
	switch dim {
	case "message":
		msgB[len(msgB)-1] ^= 1
	case "key":
		keyB[31] ^= 1
	case "nothing-nil-reader":
		rA, rB = nil, nil
		fault = "nil-reader"
	case "nothing-honest":
		rA, rB = sim.NewDRBG(c.Label("t1")), sim.NewDRBG(c.Label("t2"))
		fault = "honest"
	}
	sA, errA := taproot.SecretKey(keyA).Sign(rA, msgA)
	sB, errB := taproot.SecretKey(keyB).Sign(rB, msgB)
	c.Res.Desc = fmt.Sprintf("bip340-standalone dimension=%s rng=%s", dim, fault)
	c.Res.DistinctID = "bip340/" + dim + "/" + fault
	if errA != nil || errB != nil {
		c.Probe("attempt_could_not_start", 1)
		return
	}
	c.Res.NonTrivial = true
	c.Fault("rng_"+fault, 1)
	if bytes.Equal(sA[:32], sB[:32]) {
		c.Violate(fmt.Sprintf("nonce-reuse/bip340/%s/rng-%s", dim, fault), "two BIP-340 signatures differing only in %s share the nonce R.x=%x under a %s random source", dim, sA[:32], fault)
	}
	c.Res.Sample = map[string]interface{}{"desc": c.Res.Desc}
}

package props

import (
	"fmt"

	"github.com/taurusgroup/multi-party-sig/verif/fw"
	"github.com/taurusgroup/multi-party-sig/verif/scen"
)

func init() {
	fw.Register(&fw.PropDef{
		ID: "C02", Level: "exploration", Engine: "netsim",
		Cases: func(tier string) int {
			if tier == "thorough" {
				return 30000
			}
			return 1200
		},
		Run:  runC02,
		Rule: "one case = one key-generation world: (protocol incl. CMP with fixture primes, n in 2..7, every threshold 0..n-1, identifier set incl. long / non-ASCII / adjacent / >32-byte ids, delivery policy and scheduling decisions) drawn from the seed, run to quiescence. Oracle: same group key, same public-share table and auxiliary keys at every party, own share matches table, every (t+1)-subset (all if <=64, else 64 drawn) reconstructs the key both from secret shares and in the exponent, a t-subset does not. Non-trivial = the session was delivered message by message and produced configs; distinct = (descriptor, delivery-sequence hash).",
		Assumptions: []string{
			"reference secp256k1 / Lagrange implementation over math/big (self-checked)",
			"CMP worlds use pre-generated safe primes through the verif-tagged prime hook (the safe-prime search itself is not exercised)",
		},
		RealStub: map[string][]string{
			"real": {"keygen rounds of cmp/frost/frost-taproot/doerner", "handlers", "vss/polynomial", "zk sch/mod/prm/fac", "paillier", "ot setup"},
			"stub": {"network", "randomness source (DRBG)", "prime search (fixture)"},
		},
	})
}

func runC02(c *fw.Ctx) {
	p := drawProto(c, cmpRate(c, 12))
	n, t := drawNT(c, p, 7)
	ids := scen.DrawIDs(c.S, n)
	if p == scen.CMP {
		scen.InstallPrimes(c)
	}
	m, ks := DoKeygen(c, p, ids, t, "kg", true)
	c.Res.Desc = desc(p, n, t, fmt.Sprintf("policy=%s", ks.Net.Policy.Name()))
	c.Res.DistinctID = c.Res.Desc + "|" + fmtIDs(ids) + "|" + ks.DeliveryHash()
	if ks.CheckCrash(c, "keygen") || !requireAll(c, p, ks, "keygen") {
		return
	}
	c.Res.NonTrivial = len(ks.Net.Delivered) > 0
	limit := 64
	if c.Tier == "quick" {
		limit = 24
	}
	Y, ok := CheckMaterial(c, m, "keygen", nil, limit)
	if !ok && Y.X == nil {
		return
	}
	c.Res.Sample = map[string]interface{}{"desc": c.Res.Desc, "ids": fmtIDs(ids), "group_key": fmt.Sprintf("%x", Y.Compress()), "deliveries": len(ks.Net.Delivered), "delivery_seq_head": head(ks.Net.Delivered, 10)}
}

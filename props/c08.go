package props

import (
	"fmt"
	"math/big"

	"github.com/taurusgroup/multi-party-sig/pkg/ecdsa"
	"github.com/taurusgroup/multi-party-sig/pkg/party"
	"github.com/taurusgroup/multi-party-sig/verif/fw"
	"github.com/taurusgroup/multi-party-sig/verif/ref"
	"github.com/taurusgroup/multi-party-sig/verif/scen"
	"github.com/taurusgroup/multi-party-sig/verif/sim"
)

func init() {
	fw.Register(&fw.PropDef{
		ID: "C08", Level: "exploration", Engine: "histsim",
		Cases: func(tier string) int {
			if tier == "thorough" {
				return 25000
			}
			return 1000
		},
		Run:  runC08,
		Rule: "one case = one history: keygen, then up to 3 refresh epochs interleaved with persist/crash/restore of configs through the documented codecs on a simulated disk (with lost-write faults that leave a party on the previous epoch), each followed by checks, then signing with refreshed material and a signing session in which one signer uses pre-refresh material. Protocol, n, t, identifiers, schedules drawn by the seed. Oracle after every refresh: group key unchanged, key-generation consistency conditions hold, every share changed (t>=1), a (t+1)-subset mixing epochs does not reconstruct the key; signing with refreshed material satisfies C01's oracle; a session with a stale signer yields no signature anywhere. Non-trivial = at least one refresh completed and was checked. Distinct = (descriptor, delivery hashes of the refresh sessions).",
		Assumptions: []string{
			"share-changed clause is not demanded for t=0 (a degree-0 sharing has a single possible share value) nor for Doerner's sender/receiver individually only jointly? no: demanded for both Doerner shares",
			"the simulated disk stores exactly the bytes of the documented encoders; Doerner configs are kept in memory across epochs because their documented encoding cannot be restored (C15 finding)",
		},
		RealStub: map[string][]string{
			"real": {"keygen/refresh/sign rounds", "handlers", "config codecs (cmp/frost)"},
			"stub": {"network", "disk (in-memory byte store with lost writes)", "randomness source", "prime search"},
		},
	})
}

// mixedSubsetFails: reference reconstruction from a (t+1)-subset mixing old and new shares must not give the key.
func mixedSubsetFails(c *fw.Ctx, old, cur *scen.Material, Y ref.Pt) bool {
	if cur.Proto == scen.Doerner {
		a, b := cur.IDs[0], cur.IDs[1]
		s1 := new(big.Int).Add(old.Share(a), cur.Share(b))
		s2 := new(big.Int).Add(cur.Share(a), old.Share(b))
		return !ref.BaseMul(s1).Equal(Y) && !ref.BaseMul(s2).Equal(Y)
	}
	if cur.T < 1 {
		return true
	}
	ids := cur.IDs
	// choose a (t+1)-subset and which member stays on the old epoch
	sub := scen.DrawSubset(c.S, ids, cur.T+1)
	sub = sub[:cur.T+1]
	k := c.S.Draw(len(sub), "stale-member")
	sh := map[string]*big.Int{}
	for i, id := range sub {
		if i == k {
			sh[string(id)] = old.Share(id)
		} else {
			sh[string(id)] = cur.Share(id)
		}
	}
	return !ref.BaseMul(ref.InterpolateSecret(sh)).Equal(Y)
}

func runC08(c *fw.Ctx) {
	p := drawProto(c, cmpRate(c, 10))
	n, t := drawNT(c, p, 6)
	ids := scen.DrawIDs(c.S, n)
	var m *scen.Material
	if p == scen.CMP {
		var ok bool
		m, _, ok = cmpMaterial(c, ids, t, false)
		if !ok {
			return
		}
	} else {
		var ks *scen.Session
		m, ks = DoKeygen(c, p, ids, t, "kg", true)
		if ks.CheckCrash(c, "keygen") || !requireAll(c, p, ks, "keygen") {
			return
		}
	}
	Y, ok := CheckMaterial(c, m, "keygen", nil, 8)
	if !ok {
		return
	}
	epochs := 1 + c.S.Draw(3, "epochs")
	if p == scen.CMP {
		epochs = 1
	}
	first := snapshotMaterial(m) // value snapshot: FROST refresh mutates the old share object in place
	prev := m
	hashes := ""
	for e := 1; e <= epochs; e++ {
		// snapshot the values of the old shares (refresh may mutate old configs in place)
		oldShares := map[party.ID]*big.Int{}
		for _, id := range ids {
			oldShares[id] = new(big.Int).Set(prev.Share(id))
		}
		snap := snapshotMaterial(prev)
		// fault: a refresh that is interrupted (every delivery after a drawn step is lost, as when a peer
		// or the network dies) and then abandoned. A party whose refresh did not complete must still hold
		// its pre-refresh material unchanged, and if nobody completed the old epoch must still sign.
		if c.S.Draw(3, "interrupted-refresh") == 2 {
			if !interruptedRefresh(c, p, prev, snap, Y, t, e) {
				return
			}
		}
		m2, rs := DoRefresh(c, prev, fmt.Sprintf("rf%d", e), true)
		hashes += rs.DeliveryHash()
		if rs.CheckCrash(c, "refresh") || !requireAll(c, p, rs, fmt.Sprintf("refresh #%d", e)) {
			return
		}
		c.Res.NonTrivial = true
		where := fmt.Sprintf("refresh #%d", e)
		if _, ok := CheckMaterial(c, m2, where, &Y, 8); !ok {
			return
		}
		for _, id := range ids {
			if (t >= 1 || p == scen.Doerner) && m2.Share(id).Cmp(oldShares[id]) == 0 {
				c.Violate(p.String()+"/share-unchanged-by-refresh", "%s: party %q holds the same secret share as before", where, id)
			}
		}
		if !mixedSubsetFails(c, snap, m2, Y) {
			c.Violate(p.String()+"/mixed-epoch-shares-reconstruct", "%s: a (t+1)-subset mixing pre- and post-refresh shares reconstructs the key", where)
		}
		c.Probe("refresh_epochs_checked", 1)
		prev = m2
		_ = snap
	}
	if len(c.Res.Violations) > 0 {
		return
	}
	// sign with refreshed material
	signers := scen.DrawSubset(c.S, ids, t+1)
	signers = capSigners(p, signers, t)
	msg := scen.DrawMsg(c)
	ss := scen.NewSession(c, "sg", prev.SignMk(signers, msg, []byte(c.Label("sid", "sign")), scen.SignPlain), nil)
	ss.Run(c, true)
	if !ss.CheckCrash(c, "sign with refreshed material") {
		CheckSignOutcome(c, p, ss, signers, Y, msg, "sign with refreshed material", true)
	}
	// a session in which one signer still uses pre-refresh material never yields a signature
	if len(signers) >= 2 && (t >= 1 || p == scen.Doerner) { // t=0: the only possible share never changes, stale == fresh
		stale := signers[c.S.Draw(len(signers), "stale-signer")]
		mixed := &scen.Material{Proto: p, IDs: prev.IDs, T: prev.T, Cfg: map[party.ID]interface{}{}}
		for _, id := range ids {
			mixed.Cfg[id] = prev.Cfg[id]
		}
		mixed.Cfg[stale] = first.Cfg[stale]
		st := scen.NewSession(c, "sg-stale", mixed.SignMk(signers, msg, []byte(c.Label("sid", "sign-stale")), scen.SignPlain), nil)
		st.Run(c, true)
		c.Fault("stale_signer_session", 1)
		// crashes in this deliberately mis-provisioned world are C05/C20 territory; only results matter here
		vals, _ := st.Results()
		for id, v := range vals {
			if st.Nodes[id].Dead {
				continue
			}
			enc, valid, _ := scen.SigCheck(p, v, Y, msg)
			c.Violate(p.String()+"/stale-signer-session-yields-signature", "signer %q returned a signature (%s, valid=%v) although signer %q used pre-refresh material", id, enc, valid, stale)
		}
	}
	// CMP: a presignature made before the refresh is still usable by refreshed signers in the online
	// phase, but an online session in which one signer passes its pre-refresh config must not sign
	if p == scen.CMP && len(signers) >= 2 && t >= 1 && len(c.Res.Violations) == 0 {
		ps := scen.NewSession(c, "presign-old", first.Clone().PresignMk(signers, []byte(c.Label("sid", "presign-old"))), nil)
		ps.Run(c, true)
		pv, perrs := ps.Results()
		if len(perrs) == 0 && !ps.CheckCrash(c, "presign") {
			pre := map[party.ID]*ecdsa.PreSignature{}
			for id, v := range pv {
				pre[id] = v.(*ecdsa.PreSignature)
			}
			stale := signers[c.S.Draw(len(signers), "stale-online-signer")]
			mixed := &scen.Material{Proto: p, IDs: prev.IDs, T: prev.T, Cfg: map[party.ID]interface{}{}}
			for _, id := range ids {
				mixed.Cfg[id] = prev.Cfg[id]
			}
			mixed.Cfg[stale] = first.Cfg[stale]
			on := scen.NewSession(c, "online-stale", mixed.PresignOnlineMk(pre, msg, []byte(c.Label("sid", "online-stale"))), nil)
			on.Run(c, true)
			c.Fault("stale_signer_online_session", 1)
			ov, _ := on.Results()
			for id, v := range ov {
				if on.Nodes[id].Dead {
					continue
				}
				enc, valid, _ := scen.SigCheck(p, v, Y, msg)
				c.Violate("cmp/stale-signer-online-session-yields-signature", "signer %q returned a signature (%s, valid=%v) from an online session in which signer %q passed its pre-refresh config", id, enc, valid, stale)
			}
		}
	}
	c.Res.Desc = desc(p, n, t, fmt.Sprintf("epochs=%d signers=%d", epochs, len(signers)))
	c.Res.DistinctID = c.Res.Desc + "|" + hashes
	c.Res.Sample = map[string]interface{}{"desc": c.Res.Desc, "history": fmt.Sprintf("keygen, %d x refresh(+checks), sign(%v), sign-with-stale-signer", epochs, fmtIDs(signers))}
}

// snapshotMaterial copies the share values of a material into an independent Material whose configs
// are frozen views (so that later in-place mutation by the library cannot change what we compare).
type frozen struct {
	share *big.Int
}

func snapshotMaterial(m *scen.Material) *scen.Material {
	out := &scen.Material{Proto: m.Proto, IDs: m.IDs, T: m.T, Cfg: map[party.ID]interface{}{}}
	for id, cfg := range m.Cfg {
		out.Cfg[id] = scen.FreezeShare(m.Proto, cfg, m.Share(id))
	}
	return out
}

// interruptedRefresh runs a refresh session that loses every message after a drawn step, then checks
// the material the parties are left with.
func interruptedRefresh(c *fw.Ctx, p scen.Proto, held *scen.Material, snap *scen.Material, Y ref.Pt, t, epoch int) bool {
	ids := held.IDs
	tag := fmt.Sprintf("rf%d-interrupted", epoch)
	s := scen.NewSession(c, tag, held.RefreshMk([]byte(c.Label("sid", tag))), nil)
	// a fault-free refresh needs about n*(n-1)*rounds deliveries; cut somewhere inside
	n := len(ids)
	budget := n * (n - 1) * 4
	if p == scen.Doerner {
		budget = 4
	}
	cut := c.S.Draw(budget+1, "cut-after")
	s.Net.BeforeDeliver = func(e *sim.Env, to *sim.Node) bool { return s.Net.Steps <= cut }
	s.Run(c, true)
	c.Fault("refresh_interrupted", 1)
	if s.CheckCrash(c, "interrupted refresh") {
		return false
	}
	vals, _ := s.Results()
	completed := 0
	for _, id := range ids {
		if _, ok := vals[id]; ok {
			completed++
			continue
		}
		// did not complete: the config object the party passed in must be unchanged
		before, _ := scen.ConfigDigest(p, snap.Cfg[id])
		after, _ := scen.ConfigDigest(p, held.Cfg[id])
		if before != after {
			c.Violate(p.String()+"/abandoned-refresh-modified-held-material", "refresh #%d was interrupted after %d deliveries and party %q did not complete it, yet the key material it passed in was modified\n  before %s\n  after  %s", epoch, cut, id, trimS(before, 200), trimS(after, 200))
			return false
		}
	}
	c.Probe(fmt.Sprintf("interrupted_refresh_completed_%d_of_%d", completed, n), 1)
	if completed == 0 {
		// everybody is still on the old epoch: it must still work
		signers := capSigners(p, scen.DrawSubset(c.S, ids, t+1), t)
		msg := scen.DrawMsg(c)
		ss := scen.NewSession(c, tag+"-sign", held.SignMk(signers, msg, []byte(c.Label("sid", tag+"-sign")), scen.SignPlain), nil)
		ss.Run(c, true)
		if ss.CheckCrash(c, "sign after an abandoned refresh") {
			return false
		}
		if _, ok := CheckSignOutcome(c, p, ss, signers, Y, msg, "sign with the material held after an abandoned refresh", true); !ok {
			return false
		}
	}
	return true
}

package props

import (
	"bytes"
	"fmt"

	"github.com/taurusgroup/multi-party-sig/verif/fw"
	"github.com/taurusgroup/multi-party-sig/verif/ref"
	"github.com/taurusgroup/multi-party-sig/verif/scen"
)

func init() {
	fw.Register(&fw.PropDef{
		ID: "C14", Level: "exploration", Engine: "histsim",
		Cases: func(tier string) int {
			if tier == "thorough" {
				return 25000
			}
			return 1200
		},
		Run:  runC14,
		Rule: "one case = one history: keygen (simulated session, drawn schedule; CMP via real keygen or dealer), then a drawn path of up to 3 operations from {derive child i (i from boundaries 0,1,2,2^31-1,2^31-2 and random), refresh}, then a signing session with the final material. Oracle: after keygen every party holds the same 32-byte chain key; each derivation yields, at every party, exactly the child public key and chain code of an independent BIP-32 CKDpub on (parent key as 02/03||x, taproot 02||x, chain key, index) with even-Y normalisation for taproot; derived material satisfies the key-generation consistency conditions for the child key; signing with it satisfies C01's oracle. Non-trivial = at least one derivation was compared with the reference. Distinct = (protocol, n, t, path, indices).",
		Assumptions: []string{
			"reference CKDpub (HMAC-SHA512 from the Go standard library) self-checked against BIP-32 test vector 2 (m -> m/0)",
		},
		RealStub: map[string][]string{
			"real": {"keygen/refresh/sign rounds", "Derive/DeriveChild/DeriveBIP32", "internal/bip32"},
			"stub": {"network", "randomness source", "prime search"},
		},
	})
}

func runC14(c *fw.Ctx) {
	p := drawProto(c, cmpRate(c, 15))
	n, t := drawNT(c, p, 6)
	ids := scen.DrawIDs(c.S, n)
	var m *scen.Material
	if p == scen.CMP {
		var ok bool
		m, _, ok = cmpMaterial(c, ids, t, false)
		if !ok {
			return
		}
	} else {
		var ks *scen.Session
		m, ks = DoKeygen(c, p, ids, t, "kg", true)
		if ks.CheckCrash(c, "keygen") || !requireAll(c, p, ks, "keygen") {
			return
		}
	}
	Y, ok := CheckMaterial(c, m, "keygen", nil, 6)
	if !ok {
		return
	}
	ck, okc := CheckChainKeys(c, m, "after keygen")
	path := ""
	steps := 1 + c.S.Draw(3, "path-len")
	for s := 0; s < steps && okc; s++ {
		if c.S.Draw(4, "op") == 3 && p != scen.CMP {
			m2, rs := DoRefresh(c, m, fmt.Sprintf("rf%d", s), true)
			if rs.CheckCrash(c, "refresh") || !requireAll(c, p, rs, "refresh") {
				return
			}
			m = m2
			path += "/refresh"
			if _, ok := CheckMaterial(c, m, "refresh", &Y, 4); !ok {
				return
			}
			ck, okc = CheckChainKeys(c, m, "after refresh")
			continue
		}
		idx := drawIndex(c)
		path += fmt.Sprintf("/%d", idx)
		child, errs := m.DeriveChild(idx)
		parent := Y
		if p == scen.FROSTTaproot && parent.Y.Bit(0) == 1 {
			parent = parent.Neg()
		}
		wantY, wantCK, rerr := ref.CKDpub(parent, ck, idx)
		if rerr != nil {
			// BIP-32: invalid child (IL >= n or infinity): the library must refuse as well
			for _, id := range ids {
				if errs[id] == nil {
					c.Violate(p.String()+"/derive-accepts-invalid-child", "index %d is invalid per BIP-32 (%v) but party %q derived a child", idx, rerr, id)
				}
			}
			return
		}
		if len(errs) > 0 {
			for id, e := range errs {
				c.Violate(p.String()+"/derive-failed", "path %s: party %q cannot derive child %d: %v", path, id, idx, e)
				break
			}
			return
		}
		c.Res.NonTrivial = true
		// the child is a sharing with the parent's parameters
		for _, id := range ids {
			if a, b := child.Threshold(id), m.Threshold(id); a != b {
				c.Violate(p.String()+"/child-threshold-differs", "path %s: party %q: the derived config records threshold %d, its parent %d", path, id, a, b)
				return
			}
		}
		if p == scen.FROSTTaproot && wantY.Y.Bit(0) == 1 {
			wantY = wantY.Neg()
		}
		c.Probe("derivations_compared_with_reference", 1)
		for _, id := range ids {
			gotY := child.PublicKey(id)
			if !gotY.Equal(wantY) {
				c.Violate(p.String()+"/child-key-differs-from-bip32", "path %s: party %q derived child key %x, BIP-32 prescribes %x", path, id, gotY.Compress(), wantY.Compress())
			}
			if !bytes.Equal(child.ChainKey(id), wantCK) {
				c.Violate(p.String()+"/child-chain-code-differs-from-bip32", "path %s: party %q derived chain code %x (len %d), BIP-32 prescribes %x", path, id, child.ChainKey(id), len(child.ChainKey(id)), wantCK)
			}
		}
		if len(c.Res.Violations) > 0 {
			return
		}
		if _, ok := CheckMaterial(c, child, "derived "+path, &wantY, 4); !ok {
			return
		}
		// deriving must leave the parent usable: it is still a valid sharing of ITS key
		if _, ok := CheckMaterial(c, m, "parent after deriving "+path, &Y, 2); !ok {
			return
		}
		if !bytes.Equal(m.ChainKey(ids[0]), ck) {
			c.Violate(p.String()+"/derive-changed-parent-chain-key", "path %s: the parent's chain key changed when a child was derived", path)
			return
		}
		if c.S.Draw(3, "continue-from") == 2 {
			// stay on the parent: the next derivation is a sibling, and the final signature uses the parent
			path += "(sibling-next)"
			c.Probe("sibling_derivations", 1)
			continue
		}
		m, Y, ck = child, wantY, wantCK
	}
	if !okc || len(c.Res.Violations) > 0 {
		return
	}
	// sign with the final material
	signers := scen.DrawSubset(c.S, ids, t+1)
	signers = capSigners(p, signers, t)
	msg := scen.DrawMsg(c)
	ss := scen.NewSession(c, "sg", m.SignMk(signers, msg, []byte(c.Label("sid", "sign")), scen.SignPlain), nil)
	ss.Run(c, true)
	if !ss.CheckCrash(c, "sign with derived material") {
		CheckSignOutcome(c, p, ss, signers, Y, msg, "sign with material at path "+path, true)
	}
	c.Res.Desc = desc(p, n, t, "path="+path)
	c.Res.DistinctID = c.Res.Desc
	c.Res.Sample = map[string]interface{}{"desc": c.Res.Desc, "history": "keygen" + path + "/sign"}
}

package props

import (
	"fmt"

	"github.com/taurusgroup/multi-party-sig/internal/round"
	"github.com/taurusgroup/multi-party-sig/pkg/ecdsa"
	"github.com/taurusgroup/multi-party-sig/pkg/protocol"
	"github.com/taurusgroup/multi-party-sig/protocols/cmp"
	"github.com/taurusgroup/multi-party-sig/protocols/doerner"
	"github.com/taurusgroup/multi-party-sig/protocols/frost"
	"github.com/taurusgroup/multi-party-sig/verif/fw"
	"github.com/taurusgroup/multi-party-sig/verif/scen"
	"github.com/taurusgroup/multi-party-sig/verif/sim"
)

var cborShapes = [][]byte{{}, {0xf6}, {0xa0}, {0x80}, {0x40}, {0x60}, {0x00}, {0x20}, {0xf5}, {0xbf, 0xff}, {0x9f, 0xff}, {0x5f, 0xff},
	{0xa1, 0x00, 0x00}, {0x5a, 0xff, 0xff, 0xff, 0xff}, {0x9b, 0xff, 0xff, 0xff, 0xff, 0xff, 0xff, 0xff, 0xff}, {0xc0, 0x00}, {0xfb, 0, 0, 0, 0, 0, 0, 0, 0}}

// rawBytes derives a byte string from a genuine encoding: random, truncated, spliced, extended.
func rawBytes(c *fw.Ctx, genuine []byte) ([]byte, string) {
	switch c.S.Draw(6, "raw-kind") {
	case 0:
		n := c.S.Draw(64, "len")
		return c.S.Bytes(n, "rnd"), "random"
	case 1:
		if len(genuine) == 0 {
			return nil, "nil"
		}
		return append([]byte{}, genuine[:c.S.Draw(len(genuine), "cut")]...), "truncated-genuine"
	case 2:
		if len(genuine) < 2 {
			return []byte{0xff}, "one-byte"
		}
		out := append([]byte{}, genuine...)
		pos := c.S.Draw(len(out), "pos")
		for i := 0; i < 1+c.S.Draw(6, "n") && pos+i < len(out); i++ {
			out[pos+i] = byte(c.S.Draw(256, "b"))
		}
		return out, "spliced-genuine"
	case 3:
		return append(append([]byte{}, genuine...), c.S.Bytes(1+c.S.Draw(8, "n"), "tail")...), "genuine-plus-tail"
	case 4:
		// small hand-picked CBOR shapes
		return cborShapes[c.S.Draw(len(cborShapes), "shape")], "cbor-shape"
	default:
		return make([]byte, c.S.Draw(40, "zeros")), "zeros"
	}
}

// runC05Raw: raw byte strings and header malformations presented to a handler in a drawn state,
// and arbitrary bytes presented to the restore codecs.
func runC05Raw(c *fw.Ctx) {
	if c.S.Draw(4, "raw-target") == 3 {
		runC05RawRestore(c)
		return
	}
	sc := scen.DrawScenario(c, scen.ScenarioOpts{CMPPerMille: cmpRate(c, 4), AllowXor: true, MaxN: 4})
	s := scen.NewSession(c, "run", sc.Mk(), nil)
	s.Net.Policy = sim.DrawPolicy(s.Net)
	// run a prefix of the session
	prefix := c.S.Draw(3*len(sc.Parts)*len(sc.Parts)+1, "prefix-steps")
	s.Net.MaxSteps = prefix
	s.Net.Run()
	s.Net.MaxSteps = 20000
	victim := s.Nodes[sc.Parts[c.S.Draw(len(sc.Parts), "victim")]]
	if victim.H == nil || victim.Dead {
		return
	}
	// a genuine message to start from (any message in flight or already sent to the victim)
	var genuine *protocol.Message
	for _, e := range s.Net.Pool {
		if e.Node == victim {
			genuine = e.Decode()
			break
		}
	}
	if genuine == nil {
		for _, id := range s.Order {
			for _, m := range s.Nodes[id].Sent {
				if m.IsFor(victim.ID) {
					genuine = m
				}
			}
		}
	}
	if genuine == nil {
		return
	}
	gb, _ := genuine.MarshalBinary()
	final := round.Number(scen.FinalRound(victim.H))
	k := 1 + c.S.Draw(4, "count")
	kinds := ""
	for i := 0; i < k && !victim.Dead; i++ {
		var m *protocol.Message
		what := ""
		switch c.S.Draw(3, "raw-mode") {
		case 0: // whole wire message from raw bytes
			b, kind := rawBytes(c, gb)
			what = "wire:" + kind
			mm := &protocol.Message{}
			var uerr error
			func() {
				defer func() {
					if p := recover(); p != nil {
						c.Violate("panic-in-Message.UnmarshalBinary", "Message.UnmarshalBinary panicked on %s bytes %x: %v", kind, b, p)
					}
				}()
				uerr = mm.UnmarshalBinary(b)
			}()
			if uerr != nil {
				c.Probe("wire_bytes_refused_by_codec", 1)
				kinds += what + "(refused) "
				continue
			}
			m = mm
		case 1: // genuine headers, raw payload
			b, kind := rawBytes(c, genuine.Data)
			what = "payload:" + kind
			mm := *genuine
			mm.Data = b
			m = &mm
		default: // header malformation
			mm := *genuine
			switch c.S.Draw(14, "hdr") {
			case 0:
				mm.From, what = "", "hdr:from-empty"
			case 1:
				mm.From, what = "nobody-knows-me", "hdr:from-unknown"
			case 2:
				mm.From, what = victim.ID, "hdr:from-self"
			case 3:
				mm.To, what = "somebody-else", "hdr:to-other"
			case 4:
				mm.To, what = "", "hdr:to-empty"
			case 5:
				mm.RoundNumber, what = 0, "hdr:round-0"
			case 6:
				mm.RoundNumber, what = final+1, "hdr:round-final+1"
			case 7:
				mm.RoundNumber, what = 65535, "hdr:round-65535"
			case 8:
				mm.RoundNumber, what = 1, "hdr:round-1"
			case 9:
				mm.Protocol, what = "no/such-protocol", "hdr:protocol"
			case 10:
				mm.SSID, what = nil, "hdr:ssid-nil"
			case 11:
				mm.SSID, what = mm.SSID[:len(mm.SSID)/2], "hdr:ssid-short"
			case 12:
				mm.Data, what = nil, "hdr:data-nil"
			default:
				mm.BroadcastVerification, what = c.S.Bytes(5, "bv"), "hdr:bv-garbage"
			}
			m = &mm
		}
		kinds += what + " "
		c.Fault("malformed_delivery:"+what, 1)
		msgs := s.Net.Call(victim, func() {
			_ = victim.H.CanAccept(m)
			victim.H.Accept(m)
			_ = victim.H.CanAccept(nil)
			victim.H.Accept(nil)
		})
		s.Net.Emit(victim, msgs)
	}
	c.Res.NonTrivial = true
	c.Res.Desc = fmt.Sprintf("raw %s victim=%q after %d steps: %s", sc.Name, victim.ID, prefix, kinds)
	c.Res.DistinctID = fmt.Sprintf("raw/%s/%s/%s", sc.Proto, sc.Kind, kinds)
	// let the session continue
	s.Net.Run()
	c.Absorb(s.Net)
	for _, id := range s.Order {
		nd := s.Nodes[id]
		if nd.Panic != "" {
			c.Violate("panic@"+nd.PanicFn, "party %q panicked after malformed deliveries (%s) to %q\n%s", id, kinds, victim.ID, nd.Panic)
		}
		if nd.Hang {
			c.Violate("hang/raw/"+sc.Proto.String()+"/"+sc.Kind.String(), "party %q hung after malformed deliveries (%s)", id, kinds)
		}
	}
	b := &Byz{C: c, Sc: sc, Sess: s, Honest: sc.Parts}
	b.CheckClean()
	c.Res.Sample = map[string]interface{}{"desc": c.Res.Desc}
}

// runC05RawRestore: arbitrary bytes into every restore codec.
func runC05RawRestore(c *fw.Ctx) {
	likes := []interface{}{&cmp.Config{}, &frost.Config{}, &frost.TaprootConfig{}, &doerner.ConfigReceiver{}, &doerner.ConfigSender{}, &ecdsa.PreSignature{}, &ecdsa.Signature{}}
	// systematic core (seed-independent): every small CBOR shape into every codec
	for _, l := range likes {
		for _, sh := range cborShapes {
			_, err := scen.Restore(l, sh)
			if pe, ok := err.(*scen.PanicError); ok {
				c.Violate(fmt.Sprintf("panic-in-restore@%s/%T", sim.LibFrame(pe.Stack), l), "restoring %T from the bytes %x panicked: %s\n%s", l, sh, pe.Value, pe.Stack)
			}
			c.Probe("restore_shape_grid_cells", 1)
		}
	}
	if len(c.Res.Violations) > 0 {
		c.Res.NonTrivial = true
		c.Res.Desc = "restore grid (types x small CBOR shapes)"
		return
	}
	like := likes[c.S.Draw(len(likes), "type")]
	// a genuine encoding to derive from, when cheap
	var genuine []byte
	switch like.(type) {
	case *frost.Config, *frost.TaprootConfig, *doerner.ConfigReceiver, *doerner.ConfigSender:
		p := map[string]scen.Proto{"*keygen.Config": scen.FROST, "*keygen.TaprootConfig": scen.FROSTTaproot, "*keygen.ConfigReceiver": scen.Doerner, "*keygen.ConfigSender": scen.Doerner}[fmt.Sprintf("%T", like)]
		ids := scen.DrawIDs(c.S, 2)
		m := scen.PrepMaterial(c, p, ids, 1, "prep")
		pick := ids[0]
		if _, isS := like.(*doerner.ConfigSender); isS {
			pick = ids[1]
		}
		genuine, _ = scen.Persist(m.Cfg[pick])
	}
	b, kind := rawBytes(c, genuine)
	v, err := scen.Restore(like, b)
	c.Res.NonTrivial = true
	c.Res.Desc = fmt.Sprintf("restore %T from %s bytes (%d)", like, kind, len(b))
	c.Res.DistinctID = fmt.Sprintf("restore/%T/%s/%v", like, kind, err == nil)
	c.Fault("arbitrary_bytes_restored:"+kind, 1)
	if pe, ok := err.(*scen.PanicError); ok {
		c.Violate(fmt.Sprintf("panic-in-restore@%s/%T", sim.LibFrame(pe.Stack), like), "restoring %T from %s bytes %x panicked: %s\n%s", like, kind, b, pe.Value, pe.Stack)
	}
	_ = v
	c.Res.Sample = map[string]interface{}{"desc": c.Res.Desc, "error": fmt.Sprint(err)}
}

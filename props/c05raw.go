package props

import "github.com/taurusgroup/multi-party-sig/verif/fw"

func runC05Raw(c *fw.Ctx) {}

package props

import (
	"crypto/sha256"
	"fmt"
	"sort"

	"github.com/taurusgroup/multi-party-sig/pkg/party"
	"github.com/taurusgroup/multi-party-sig/pkg/protocol"
	"github.com/taurusgroup/multi-party-sig/verif/fw"
	"github.com/taurusgroup/multi-party-sig/verif/mut"
	"github.com/taurusgroup/multi-party-sig/verif/scen"
	"github.com/taurusgroup/multi-party-sig/verif/sim"
)

func init() {
	fw.Register(&fw.PropDef{
		ID: "C07", Level: "exploration", Engine: "netsim",
		Cases: func(tier string) int {
			if tier == "thorough" {
				return 40000
			}
			return 1500
		},
		Run:  runC07,
		Rule: "one case = a session (xor / frost / frost-taproot / doerner / cmp; keygen, refresh, sign, presign kinds) run twice with identical parameters and identical per-party randomness streams: once FIFO without faults (reference) and once under a drawn delivery policy (random, LIFO, slow node, fast node, p2p-before-broadcast, per-link FIFO, partition/heal) with drawn duplication rate, foreign-session messages (same parties, different session id) injected at drawn positions and stale messages re-delivered after completion. Oracle: every party completes; result digest and the multiset of emitted messages equal the reference run's. Non-trivial = the explored delivery sequence differs from the reference sequence or at least one duplicate/foreign/stale delivery happened. Distinct = delivery-sequence hash.",
		Assumptions: []string{
			"causality only: a message can be delivered once its sender emitted it; every message is eventually delivered at least once",
			"per-party randomness is a function of (seed, case, party) only, so results are comparable across schedules",
		},
		Extra: func(cov map[string]interface{}) {
			if m, ok := cov["distinct_states_by_kind"].(map[string]int); ok {
				cov["xor_n3_delivery_orders_seen_of_720"] = m["xor3order"]
				cov["xor_n3_note"] = "the 2-round xor protocol with 3 parties has 6 messages, all in flight from the start: 6! = 720 causally valid delivery orders; this is the part of that space reached by sampling (not an enumeration)"
			}
		},
		RealStub: map[string][]string{
			"real": {"handlers (queues, duplicate suppression, round window)", "all round code"},
			"stub": {"network", "randomness source", "CMP key material from harness dealer", "prime search"},
		},
	})
}

// msgKey identifies an emitted message semantically: headers plus a digest of the payload re-encoded
// canonically (map keys sorted), because Go's random map iteration makes the raw bytes of map-bearing
// payloads - and therefore the echo hashes that cover them - differ between otherwise identical runs.
func msgKey(m *protocol.Message) string {
	data := m.Data
	if t, err := mut.Decode(m.Data); err == nil {
		func() {
			defer func() { _ = recover() }()
			data = mut.Encode(t)
		}()
	}
	h := sha256.Sum256(data)
	return fmt.Sprintf("r%d b%v to=%q ssid=%x data=%x", m.RoundNumber, m.Broadcast, m.To, m.SSID[:min(4, len(m.SSID))], h[:8])
}

func min(a, b int) int {
	if a < b {
		return a
	}
	return b
}

func sentKeys(n *sim.Node) []string {
	var out []string
	for _, m := range n.Sent {
		out = append(out, msgKey(m))
	}
	sort.Strings(out)
	return out
}

func equalStrings(a, b []string) bool {
	if len(a) != len(b) {
		return false
	}
	for i := range a {
		if a[i] != b[i] {
			return false
		}
	}
	return true
}

func runC07(c *fw.Ctx) {
	var sc *scen.Scenario
	mode := c.S.Draw(8, "xor3-sweep")
	xorSweep := mode == 7
	if mode == 6 || mode == 5 {
		// the handler under round shapes no shipped protocol has (e.g. point-to-point-only rounds after round 2)
		sc = scen.DrawToy(c, 2)
	} else if xorSweep {
		// the deterministic 2-round protocol with 3 parties: 6 messages, 720 delivery orders, sampled uniformly
		ids := scen.IDPool[:3]
		sc = &scen.Scenario{Kind: scen.KXor, Proto: scen.FROST, N: 3, T: 2, IDs: ids, Parts: ids, SID: []byte(c.Label("sid", "main")), Name: "xor n=3"}
	} else {
		sc = scen.DrawScenario(c, scen.ScenarioOpts{CMPPerMille: cmpRate(c, 12), AllowXor: true, MaxN: 5})
	}
	// reference: FIFO, no faults
	refS := scen.NewSession(c, "run", sc.Mk(), nil)
	refS.Net.Policy = sim.FIFO{}
	refS.Net.Run()
	c.Res.Steps += refS.Net.Steps
	if refS.CheckCrash(c, "reference run") {
		return
	}
	refVals, refErrs := refS.Results()
	if len(refErrs) > 0 {
		for id, e := range refErrs {
			c.Violate(sc.Proto.String()+"/"+sc.Kind.String()+"/in-order-run-failed", "reference (in-order, fault-free) run: party %q: %v", id, e)
			break
		}
		return
	}
	// foreign session: same parties and parameters, different session id
	fsc := *sc
	fsc.SID = []byte(c.Label("sid", "foreign"))
	forS := scen.NewSession(c, "fx", fsc.Mk(), nil)
	forS.Net.Policy = sim.FIFO{}
	forS.Net.Run()
	c.Res.Steps += forS.Net.Steps

	// explored run
	ex := scen.NewSession(c, "run", sc.Mk(), nil)
	ex.Net.Policy = sim.DrawPolicy(ex.Net)
	ex.Net.DupRate = []int{0, 150, 500}[c.S.Draw(3, "duprate")]
	foreignRate := []int{0, 100, 400}[c.S.Draw(3, "foreignrate")]
	if xorSweep {
		ex.Net.Policy, ex.Net.DupRate, foreignRate = sim.Random{}, 0, 0
	}
	nForeign := 0
	if foreignRate > 0 {
		for _, id := range forS.Order {
			fn := forS.Nodes[id]
			for _, m := range fn.Sent {
				for _, tid := range ex.Order {
					if tid == id || !m.IsFor(tid) {
						continue
					}
					if c.S.Bool(foreignRate, 1000, "foreign") {
						e := ex.Net.Enqueue(ex.Nodes[id], m, ex.Nodes[tid], "foreign")
						// spread foreign messages over the run
						e.Release = c.S.Draw(4*len(ex.Order)*len(ex.Order), "foreign-at")
						nForeign++
					}
				}
			}
		}
	}
	ex.Net.Faults["foreign_session_injected"] += nForeign
	early := 0
	ex.Net.AfterDeliver = func(e *sim.Env, to *sim.Node) {
		if r := scen.RoundOf(to.H); r >= 0 && e.Round > r+0 && e.Kind == "" {
			_ = r
		}
	}
	ex.Net.BeforeDeliver = func(e *sim.Env, to *sim.Node) bool {
		if e.Kind == "" || e.Kind == "dup" {
			r := scen.RoundOf(to.H)
			if r > 0 && e.Round > r {
				early++
			}
			if r > 0 && e.Round < r && e.Round > 0 {
				ex.Net.Probes["stale_round_delivery"]++
			}
		}
		return true
	}
	ex.Net.Run()
	ex.Net.Probes["early_arrival_of_later_round"] += early
	c.Absorb(ex.Net)
	c.Res.Desc = fmt.Sprintf("%s policy=%s dup=%d foreign=%d", sc.Name, ex.Net.Policy.Name(), ex.Net.DupRate, foreignRate)
	c.Res.DistinctID = ex.DeliveryHash()
	differs := ex.DeliveryHash() != refS.DeliveryHash()
	c.Res.NonTrivial = differs || ex.Net.Faults["duplicate"] > 0 || nForeign > 0
	if ex.CheckCrash(c, "explored run") {
		return
	}
	if !ex.Net.Quiescent() {
		c.Violate(sc.Proto.String()+"/no-quiescence", "explored run hit the step bound")
		return
	}
	vals, errs := ex.Results()
	sigBase := sc.Proto.String() + "/" + sc.Kind.String()
	for _, id := range ex.Order {
		if e, bad := errs[id]; bad {
			c.Violate(sigBase+"/did-not-complete-under-reordering", "party %q did not complete under policy %s (dup=%d foreign=%d): %v", id, ex.Net.Policy.Name(), ex.Net.DupRate, nForeign, e)
			continue
		}
		if a, b := scen.ResultDigest(sc.Proto, vals[id]), scen.ResultDigest(sc.Proto, refVals[id]); a != b {
			c.Violate(sigBase+"/result-differs-from-in-order-run", "party %q: result under policy %s differs from the in-order run:\n  got  %s\n  want %s", id, ex.Net.Policy.Name(), trimS(a, 300), trimS(b, 300))
		}
		if a, b := sentKeys(ex.Nodes[id]), sentKeys(refS.Nodes[id]); !equalStrings(a, b) {
			c.Violate(sigBase+"/emitted-messages-differ-from-in-order-run", "party %q emitted a different set of messages than in the in-order run (%d vs %d)", id, len(a), len(b))
		}
	}
	// stale re-delivery after completion: nothing may change
	if len(c.Res.Violations) == 0 {
		stale := 0
		before := map[party.ID]string{}
		for _, id := range ex.Order {
			before[id] = scen.ResultDigest(sc.Proto, vals[id])
		}
		for _, id := range ex.Order {
			nd := ex.Nodes[id]
			for i, e := range nd.Recv {
				if i%3 != int(c.CaseKey%3) {
					continue
				}
				m := e.Decode()
				msgs := ex.Net.Call(nd, func() { nd.H.Accept(m) })
				stale++
				if len(msgs) > 0 {
					c.Violate(sigBase+"/stale-after-completion-emits", "party %q emitted %d messages when a stale message was re-delivered after completion", id, len(msgs))
				}
			}
		}
		c.Fault("stale_after_completion", stale)
		if ex.CheckCrash(c, "stale re-delivery") {
			return
		}
		v2, e2 := ex.Results()
		for _, id := range ex.Order {
			if e2[id] != nil || scen.ResultDigest(sc.Proto, v2[id]) != before[id] {
				c.Violate(sigBase+"/stale-after-completion-changes-result", "party %q: result changed after stale re-delivery", id)
			}
		}
	}
	if sc.Kind == scen.KXor && sc.N == 3 && ex.Net.DupRate == 0 && nForeign == 0 {
		c.Res.States = append(c.Res.States, "xor3order:"+ex.DeliveryHash())
	}
	c.Res.States = append(c.Res.States, "seq:"+ex.DeliveryHash())
	c.Res.Sample = map[string]interface{}{"desc": c.Res.Desc, "delivery_seq": head(ex.Net.Delivered, 16), "deliveries": len(ex.Net.Delivered), "reference_deliveries": len(refS.Net.Delivered)}
}

func trimS(s string, n int) string {
	if len(s) > n {
		return s[:n] + "..."
	}
	return s
}

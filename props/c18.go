package props

import (
	"github.com/taurusgroup/multi-party-sig/verif/c18meta"
	"github.com/taurusgroup/multi-party-sig/verif/fw"
)

func init() {
	p := c18meta.Def()
	// cases run in the separate poolsim test binary (go1.26.8, testing/synctest)
	p.External = &fw.External{Bin: "/verif/.bin/poolsim.test", Args: []string{"-test.run", "^TestWorker$", "-test.timeout", "0"}, Env: "VERIF_POOLSIM"}
	fw.Register(p)
}

// Package props holds the per-property checks.
package props

import (
	"bytes"
	"fmt"
	"math/big"
	"sort"

	"github.com/taurusgroup/multi-party-sig/pkg/party"
	"github.com/taurusgroup/multi-party-sig/protocols/cmp"
	"github.com/taurusgroup/multi-party-sig/verif/fw"
	"github.com/taurusgroup/multi-party-sig/verif/ref"
	"github.com/taurusgroup/multi-party-sig/verif/scen"
)

// subsets enumerates all k-subsets of ids if there are at most limit, else draws limit of them.
func subsets(c *fw.Ctx, ids []party.ID, k int, limit int) [][]party.ID {
	n := len(ids)
	total := binom(n, k)
	var out [][]party.ID
	if total <= limit {
		idx := make([]int, k)
		for i := range idx {
			idx[i] = i
		}
		for {
			s := make([]party.ID, k)
			for i, j := range idx {
				s[i] = ids[j]
			}
			out = append(out, s)
			i := k - 1
			for i >= 0 && idx[i] == n-k+i {
				i--
			}
			if i < 0 {
				break
			}
			idx[i]++
			for j := i + 1; j < k; j++ {
				idx[j] = idx[j-1] + 1
			}
		}
		return out
	}
	for len(out) < limit {
		pool := append([]party.ID{}, ids...)
		var s []party.ID
		for len(s) < k {
			j := c.S.Draw(len(pool), "recon-subset")
			s = append(s, pool[j])
			pool = append(pool[:j], pool[j+1:]...)
		}
		sort.Slice(s, func(a, b int) bool { return s[a] < s[b] })
		out = append(out, s)
	}
	return out
}

func binom(n, k int) int {
	if k < 0 || k > n {
		return 0
	}
	r := 1
	for i := 0; i < k; i++ {
		r = r * (n - i) / (i + 1)
		if r > 1<<30 {
			return 1 << 30
		}
	}
	return r
}

// CheckMaterial evaluates the key-generation consistency conditions (C02) on material m.
// expectY, if non-nil, is the group key the material must have (refresh / derive).
// It returns the agreed group key.
func CheckMaterial(c *fw.Ctx, m *scen.Material, where string, expectY *ref.Pt, subsetLimit int) (Y ref.Pt, ok bool) {
	ok = true
	bad := func(sig, f string, a ...interface{}) {
		ok = false
		c.Violate(m.Proto.String()+"/"+sig, where+": "+f, a...)
	}
	for _, id := range m.IDs {
		if _, has := m.Cfg[id]; !has {
			bad("missing-config", "party %q has no config", id)
			return Y, false
		}
	}
	// a finished session must not hand out a result with absent points or scalars
	for _, id := range m.IDs {
		if msg := probeMaterial(m, id); msg != "" {
			bad("result-has-absent-field", "party %q finished with key material that lacks a field (%s)", id, msg)
			return Y, false
		}
	}
	// same group key everywhere
	Y = m.PublicKey(m.IDs[0])
	for _, id := range m.IDs[1:] {
		if !m.PublicKey(id).Equal(Y) {
			bad("group-key-differs", "parties %q and %q report different group keys", m.IDs[0], id)
		}
	}
	if Y.Inf {
		bad("group-key-identity", "group key is the identity / not liftable")
		return Y, false
	}
	// CMP configs do not store the group key: what a party REPORTS is Config.PublicPoint(); it must be
	// the key its public-share table interpolates to (Y above is the reference interpolation)
	for _, id := range m.IDs {
		if cc, isCMP := m.Cfg[id].(*cmp.Config); isCMP {
			if rep := scen.Pt(cc.PublicPoint()); !rep.Equal(Y) {
				bad("reported-group-key-differs-from-table", "party %q reports group key %x (Config.PublicPoint) but its public shares interpolate to %x (n=%d t=%d)", id, rep.Compress(), Y.Compress(), len(m.IDs), m.T)
				break
			}
		}
	}
	if expectY != nil && !expectY.Equal(Y) {
		bad("group-key-changed", "group key %x differs from the expected %x", Y.Compress(), expectY.Compress())
	}
	if m.Proto == scen.Doerner {
		sum := new(big.Int)
		for _, id := range m.IDs {
			sum.Add(sum, m.Share(id))
		}
		if !ref.BaseMul(sum).Equal(Y) {
			bad("shares-do-not-combine", "the two Doerner shares do not add up to the group key")
		}
		return Y, ok
	}
	// same table everywhere, same threshold, same aux table
	t0 := m.PubShares(m.IDs[0])
	aux0 := m.AuxTable(m.IDs[0])
	for _, id := range m.IDs {
		if th := m.Threshold(id); th != m.T {
			bad("threshold-differs", "party %q records threshold %d, session used %d", id, th, m.T)
		}
		ti := m.PubShares(id)
		if len(ti) != len(m.IDs) {
			bad("table-size", "party %q holds %d public shares for %d parties", id, len(ti), len(m.IDs))
			continue
		}
		for _, j := range m.IDs {
			pj, has := ti[string(j)]
			if !has {
				bad("table-missing-entry", "party %q has no public share for %q", id, j)
				continue
			}
			if !pj.Equal(t0[string(j)]) {
				bad("table-differs", "parties %q and %q disagree on the public share of %q", m.IDs[0], id, j)
			}
		}
		if m.AuxTable(id) != aux0 {
			bad("aux-table-differs", "parties %q and %q disagree on auxiliary public keys", m.IDs[0], id)
		}
		// own share matches own entry
		if own, has := ti[string(id)]; has && !ref.BaseMul(m.Share(id)).Equal(own) {
			bad("share-mismatch-table", "party %q: share*G differs from its own table entry", id)
		}
	}
	if !ok {
		return Y, ok
	}
	// every (t+1)-subset reconstructs
	for _, sub := range subsets(c, m.IDs, m.T+1, subsetLimit) {
		sh := map[string]*big.Int{}
		ps := map[string]ref.Pt{}
		for _, id := range sub {
			sh[string(id)] = m.Share(id)
			ps[string(id)] = t0[string(id)]
		}
		c.Probe("reconstruction_subsets", 1)
		if !ref.BaseMul(ref.InterpolateSecret(sh)).Equal(Y) {
			bad("subset-secret-reconstruction", "shares of %v do not reconstruct the group key (t=%d)", sub, m.T)
			break
		}
		if !ref.InterpolatePoint(ps).Equal(Y) {
			bad("subset-public-interpolation", "table entries of %v do not interpolate to the group key (t=%d)", sub, m.T)
			break
		}
	}
	// degree not too low: some t-subset must NOT reconstruct
	if m.T >= 1 {
		sub := m.IDs[len(m.IDs)-m.T:]
		sh := map[string]*big.Int{}
		for _, id := range sub {
			sh[string(id)] = m.Share(id)
		}
		if ref.BaseMul(ref.InterpolateSecret(sh)).Equal(Y) {
			bad("degree-too-low", "only %d shares (%v) already reconstruct the key with threshold %d", m.T, sub, m.T)
		}
	}
	return Y, ok
}

// CheckChainKeys: identical 32-byte chain key everywhere.
func CheckChainKeys(c *fw.Ctx, m *scen.Material, where string) ([]byte, bool) {
	ok := true
	ck := m.ChainKey(m.IDs[0])
	for _, id := range m.IDs {
		k := m.ChainKey(id)
		if len(k) != 32 {
			ok = false
			c.Violate(m.Proto.String()+"/chainkey-length", "%s: party %q holds a chain key of %d bytes (want 32)", where, id, len(k))
			continue
		}
		if !bytes.Equal(k, ck) {
			ok = false
			c.Violate(m.Proto.String()+"/chainkey-differs", "%s: parties %q and %q hold different chain keys", where, m.IDs[0], id)
		}
	}
	return ck, ok
}

// CheckSignOutcome evaluates C01's oracle on a finished all-honest signing session.
func CheckSignOutcome(c *fw.Ctx, p scen.Proto, s *scen.Session, signers []party.ID, Y ref.Pt, msg []byte, where string, requireCompletion bool) (sigEnc string, ok bool) {
	ok = true
	vals, errs := s.Results()
	for _, id := range signers {
		if e, bad := errs[id]; bad && requireCompletion {
			ok = false
			c.Violate(p.String()+"/honest-session-did-not-complete", "%s: signer %q did not complete: %v", where, id, e)
		}
	}
	for _, id := range signers {
		v, has := vals[id]
		if !has {
			continue
		}
		enc, valid, how := scen.SigCheck(p, v, Y, msg)
		if !valid {
			ok = false
			c.Violate(p.String()+"/invalid-signature", "%s: signer %q returned a signature rejected by the reference verifier (%s): %s", where, id, how, enc)
		}
		if sigEnc == "" {
			sigEnc = enc
		} else if sigEnc != enc {
			ok = false
			c.Violate(p.String()+"/signatures-differ", "%s: signers returned different signatures: %s vs %s", where, sigEnc, enc)
		}
	}
	return sigEnc, ok
}

func fmtIDs(ids []party.ID) string { return fmt.Sprintf("%q", ids) }

// probeMaterial reads every field the oracles use and reports what the bridge could not read.
func probeMaterial(m *scen.Material, id party.ID) (msg string) {
	defer func() {
		if p := recover(); p != nil {
			if f, ok := p.(scen.Fatal); ok {
				msg = fmt.Sprint(f)
				return
			}
			msg = fmt.Sprintf("panic while reading it: %v", p)
		}
	}()
	_ = m.PublicKey(id)
	_ = m.Share(id)
	_ = m.PubShares(id)
	_ = m.ChainKey(id)
	return ""
}

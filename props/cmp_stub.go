package props

import (
	"fmt"
	"os"
	"strconv"

	"github.com/taurusgroup/multi-party-sig/pkg/ecdsa"
	"github.com/taurusgroup/multi-party-sig/pkg/party"
	"github.com/taurusgroup/multi-party-sig/verif/fw"
	"github.com/taurusgroup/multi-party-sig/verif/scen"
)

var cmpEnabled = true

func cmpRate(c *fw.Ctx, perMille int) int {
	if !cmpEnabled {
		return 0
	}
	// VERIF_CMP_PERMILLE overrides the share of CMP worlds (debugging / targeted campaigns)
	if v := os.Getenv("VERIF_CMP_PERMILLE"); v != "" {
		if n, err := strconv.Atoi(v); err == nil {
			return n
		}
	}
	return perMille
}

// cmpMaterial produces CMP key material: real simulated keygen (1 in 4) or the harness dealer.
func cmpMaterial(c *fw.Ctx, ids []party.ID, t int, forceReal bool) (*scen.Material, string, bool) {
	scen.InstallPrimes(c)
	if forceReal || c.S.Draw(4, "cmp-material") == 3 {
		m, ks := DoKeygen(c, scen.CMP, ids, t, "kg", true)
		if ks.CheckCrash(c, "keygen") || !requireAll(c, scen.CMP, ks, "keygen") {
			return nil, "keygen", false
		}
		return m, "keygen", true
	}
	return scen.DealCMP(c, ids, t, "kg"), "dealer", true
}

func runC01CMP(c *fw.Ctx, n, t int, ids []party.ID, hist int) {
	p := scen.CMP
	m, src, ok := cmpMaterial(c, ids, t, false)
	if !ok {
		return
	}
	Y, ok := CheckMaterial(c, m, "keygen", nil, 4)
	if !ok {
		return
	}
	histS := "fresh"
	switch hist {
	case 1, 4:
		histS = "refreshed"
		m2, rs := DoRefresh(c, m, "rf1", true)
		if rs.CheckCrash(c, "refresh") || !requireAll(c, p, rs, "refresh") {
			return
		}
		m = m2
	case 2, 3:
		histS = "derived"
		m2, errs := m.DeriveChild(drawIndex(c))
		if len(errs) == 0 {
			switch c.S.Draw(3, "derived-use") {
			case 0:
				m = m2
			case 1:
				histS += "+parent-reused"
			case 2:
				histS += "+sibling-derived"
				_, _ = m.DeriveChild(drawIndex(c))
				m = m2
			}
			Y = m.PublicKey(m.IDs[0])
		}
	}
	signers := scen.DrawSubset(c.S, ids, t+1)
	if len(signers) > 3 {
		signers = signers[len(signers)-3:]
		if len(signers) < t+1 {
			signers = scen.DrawSubset(c.S, ids, t+1)
		}
	}
	msg := scen.DrawMsg(c)
	variant := c.S.Draw(3, "cmp-sign-variant") // 0 sign, 1 presign offline + online, 2 presign full
	var ss *scen.Session
	vname := "sign"
	switch variant {
	case 0:
		ss = scen.NewSession(c, "sg", withRetry(c, "sg", len(signers), p, func() map[party.ID]scen.Mk {
			return m.SignMk(signers, msg, []byte(c.Label("sid", "sign")), scen.SignPlain)
		}), nil)
		ss.Run(c, true)
	case 2:
		vname = "presign-full"
		ss = scen.NewSession(c, "sg", withRetry(c, "sg", len(signers), p, func() map[party.ID]scen.Mk {
			return m.SignMk(signers, msg, []byte(c.Label("sid", "sign")), scen.SignPresignFull)
		}), nil)
		ss.Run(c, true)
	case 1:
		vname = "presign+online"
		ps := scen.NewSession(c, "ps", withRetry(c, "ps", len(signers), p, func() map[party.ID]scen.Mk { return m.PresignMk(signers, []byte(c.Label("sid", "presign"))) }), nil)
		ps.Run(c, true)
		if ps.CheckCrash(c, "presign") || !requireAll(c, p, ps, "presign") {
			return
		}
		vals, _ := ps.Results()
		pre := map[party.ID]*ecdsa.PreSignature{}
		for id, v := range vals {
			pp, isPre := v.(*ecdsa.PreSignature)
			if !isPre {
				c.Violate("cmp/presign-result-type", "presign returned %T at %q", v, id)
				return
			}
			pre[id] = pp
		}
		ss = scen.NewSession(c, "sg", m.PresignOnlineMk(pre, msg, []byte(c.Label("sid", "online"))), nil)
		ss.Run(c, true)
	}
	c.Res.Desc = desc(p, n, t, fmt.Sprintf("material=%s hist=%s variant=%s signers=%d/%d msglen=%d policy=%s", src, histS, vname, len(signers), n, len(msg), ss.Net.Policy.Name()))
	c.Res.DistinctID = c.Res.Desc + "|" + ss.DeliveryHash()
	c.Res.NonTrivial = len(ss.Net.Delivered) > 0
	if ss.CheckCrash(c, vname) {
		return
	}
	for id, e := range ss.Errs {
		c.Violate("cmp/start-refused-valid-parameters", "%s: party %q could not start: %v", vname, id, e)
		return
	}
	enc, _ := CheckSignOutcome(c, p, ss, signers, Y, msg, vname, true)
	c.Res.Sample = map[string]interface{}{"desc": c.Res.Desc, "ids": fmtIDs(ids), "signers": fmtIDs(signers), "signature": enc, "deliveries": len(ss.Net.Delivered)}
}

package props

import (
	"fmt"

	"github.com/taurusgroup/multi-party-sig/pkg/party"
	"github.com/taurusgroup/multi-party-sig/verif/fw"
	"github.com/taurusgroup/multi-party-sig/verif/scen"
	"github.com/taurusgroup/multi-party-sig/verif/sim"
)

// drawProto draws a protocol family; cmpPerMille is the chance of CMP (expensive).
func drawProto(c *fw.Ctx, cmpPerMille int) scen.Proto {
	if cmpPerMille > 0 && c.S.Bool(cmpPerMille, 1000, "proto-cmp") {
		return scen.CMP
	}
	return scen.Proto(c.S.Draw(3, "proto"))
}

// drawNT draws n and t for a protocol.
func drawNT(c *fw.Ctx, p scen.Proto, maxN int) (int, int) {
	if p == scen.Doerner {
		return 2, 1
	}
	if p == scen.CMP && maxN > 4 {
		maxN = 4
	}
	n := 2 + c.S.Draw(maxN-1, "n")
	t := n - 1 - c.S.Draw(n, "t") // 0 decision = t=n-1 (what the suite uses); others explore lower thresholds
	return n, t
}

// DoKeygen runs a key generation session to quiescence and returns the material (nil if it failed).
func DoKeygen(c *fw.Ctx, p scen.Proto, ids []party.ID, t int, tag string, policy bool) (*scen.Material, *scen.Session) {
	sid := []byte(c.Label("sid", tag))
	mks := withRetry(c, tag, len(ids), p, func() map[party.ID]scen.Mk { return scen.KeygenMk(p, ids, t, sid) })
	s := scen.NewSession(c, tag, mks, nil)
	s.Run(c, policy)
	vals, _ := s.Results()
	return scen.Collect(p, ids, t, vals), s
}

// DoRefresh runs a refresh session over material.
func DoRefresh(c *fw.Ctx, m *scen.Material, tag string, policy bool) (*scen.Material, *scen.Session) {
	sid := []byte(c.Label("sid", tag))
	mks := withRetry(c, tag, len(m.IDs), m.Proto, func() map[party.ID]scen.Mk { return m.RefreshMk(sid) })
	s := scen.NewSession(c, tag, mks, nil)
	s.Run(c, policy)
	vals, _ := s.Results()
	return scen.Collect(m.Proto, m.IDs, m.T, vals), s
}

// withRetry: in one case of six the session about to run is a RETRY - a first attempt made with the
// same start functions (an application that builds its protocol.StartFunc once and calls
// NewMultiHandler again) lost every message after a drawn step and was abandoned. The retry must
// behave like a first attempt.
func withRetry(c *fw.Ctx, tag string, n int, p scen.Proto, build func() map[party.ID]scen.Mk) map[party.ID]scen.Mk {
	if c.S.Draw(6, "retry-with-same-start-functions") != 5 {
		return build()
	}
	mks := scen.Reusing(build)
	first := scen.NewSession(c, tag+"-abandoned", mks, nil)
	budget := n * (n - 1) * 5
	if p == scen.Doerner {
		budget = 8
	}
	cut := c.S.Draw(budget+1, "first-attempt-cut")
	first.Net.BeforeDeliver = func(e *sim.Env, to *sim.Node) bool { return first.Net.Steps <= cut }
	first.Net.Policy = sim.FIFO{}
	first.Net.Run()
	c.Res.Steps += first.Net.Steps
	c.Fault("first_attempt_abandoned_start_functions_reused", 1)
	first.CheckCrash(c, "abandoned first attempt of "+tag)
	return mks
}

// requireAll reports parties that did not complete an all-honest session (completion at quiescence).
func requireAll(c *fw.Ctx, p scen.Proto, s *scen.Session, what string) bool {
	ok := true
	if !s.Net.Quiescent() {
		c.Violate(p.String()+"/no-quiescence", "%s: step bound hit with %d messages still in flight", what, len(s.Net.Pool))
		return false
	}
	vals, errs := s.Results()
	for _, id := range s.Order {
		if _, has := vals[id]; !has {
			ok = false
			c.Violate(p.String()+"/honest-session-did-not-complete", "%s: party %q did not complete at quiescence: %v", what, id, errs[id])
		}
	}
	return ok
}

func desc(p scen.Proto, n, t int, extra string) string {
	return fmt.Sprintf("%s n=%d t=%d %s", p, n, t, extra)
}

// capSigners keeps CMP signing sessions at <= 3 signers (cost) whenever the threshold allows it.
func capSigners(p scen.Proto, signers []party.ID, t int) []party.ID {
	if p == scen.CMP && len(signers) > 3 && t+1 <= 3 {
		return signers[:3]
	}
	return signers
}

package props

import (
	"fmt"
	"github.com/taurusgroup/multi-party-sig/pkg/party"

	"github.com/taurusgroup/multi-party-sig/verif/fw"
	"github.com/taurusgroup/multi-party-sig/verif/scen"
)

func init() {
	fw.Register(&fw.PropDef{
		ID: "C01", Level: "exploration", Engine: "netsim",
		Cases: func(tier string) int {
			if tier == "thorough" {
				return 40000
			}
			return 1500
		},
		Run:  runC01,
		Rule: "one case = one all-honest world: (protocol, n, t, identifier set, key-material history fresh/refreshed/derived, non-prefix signer subset, message length, delivery policy and every scheduling decision) drawn from the seed; signing session(s) run to quiescence on the simulated network. Non-trivial = at least one signing session was actually delivered message by message and its result judged by the reference verifier. Distinct = distinct (scenario descriptor, delivery-sequence hash).",
		Assumptions: []string{
			"reference verifiers (ECDSA SEC1, BIP-340, Schnorr over big-int secp256k1) are correct; self-checked against BIP-340 vectors 0,1, BIP-32 vector 2 and the library on sample points at start-up",
			"FROST native challenge framing re-implemented from the library's documented (domain,length) framing on the blake3 primitive",
			"nil worker pool (the pool is verified separately in C18)",
		},
		RealStub: map[string][]string{
			"real": {"protocol.MultiHandler/TwoPartyHandler", "all round code", "zk proofs", "paillier", "ot", "hash", "codecs"},
			"stub": {"network (simulated)", "crypto/rand.Reader (per-party AES-CTR DRBG)", "safe-prime search (fixture primes via verif hook, CMP keygen only)"},
		},
	})
}

func runC01(c *fw.Ctx) {
	p := drawProto(c, cmpRate(c, 25))
	n, t := drawNT(c, p, 7)
	ids := scen.DrawIDs(c.S, n)
	hist := c.S.Draw(5, "history") // 0 fresh, 1 refreshed once, 2 derived, 3 refreshed then derived, 4 refreshed twice
	if p == scen.CMP {
		runC01CMP(c, n, t, ids, hist)
		return
	}
	m, ks := DoKeygen(c, p, ids, t, "kg", true)
	if ks.CheckCrash(c, "keygen") || !requireAll(c, p, ks, "keygen") {
		return
	}
	Y, ok := CheckMaterial(c, m, "keygen", nil, 8)
	if !ok {
		return
	}
	histS := "fresh"
	step := func(kind string, i int) bool {
		switch kind {
		case "refresh":
			m2, rs := DoRefresh(c, m, fmt.Sprintf("rf%d", i), true)
			if rs.CheckCrash(c, "refresh") || !requireAll(c, p, rs, "refresh") {
				return false
			}
			m = m2
		case "derive":
			idx := drawIndex(c)
			m2, errs := m.DeriveChild(idx)
			if len(errs) > 0 {
				// derivation problems are C14's business; C01 only signs with material that exists
				c.Probe("derive_failed_skipped", 1)
				return true
			}
			// which of the objects now in memory signs: the child, the PARENT it was derived from (which
			// must be unaffected), or the child after a second child has been derived from the parent
			switch c.S.Draw(3, "derived-use") {
			case 0:
				m = m2
			case 1:
				histS += "+parent-reused"
			case 2:
				histS += "+sibling-derived"
				_, _ = m.DeriveChild(drawIndex(c))
				m = m2
			}
			Y = m.PublicKey(m.IDs[0])
		}
		return true
	}
	switch hist {
	case 1:
		histS = "refreshed"
		if !step("refresh", 1) {
			return
		}
	case 2:
		histS = "derived"
		if !step("derive", 1) {
			return
		}
	case 3:
		histS = "refreshed+derived"
		if !step("refresh", 1) || !step("derive", 2) {
			return
		}
	case 4:
		histS = "refreshed-twice"
		if !step("refresh", 1) || !step("refresh", 2) {
			return
		}
	}
	signers := scen.DrawSubset(c.S, ids, t+1)
	msg := scen.DrawMsg(c)
	sid := []byte(c.Label("sid", "sign"))
	ss := scen.NewSession(c, "sg", withRetry(c, "sg", len(signers), p, func() map[party.ID]scen.Mk { return m.SignMk(signers, msg, sid, scen.SignPlain) }), nil)
	ss.Run(c, true)
	c.Res.Desc = desc(p, n, t, fmt.Sprintf("hist=%s signers=%d/%d msglen=%d policy=%s", histS, len(signers), n, len(msg), ss.Net.Policy.Name()))
	c.Res.DistinctID = c.Res.Desc + "|" + ss.DeliveryHash()
	c.Res.NonTrivial = len(ss.Net.Delivered) > 0
	if ss.CheckCrash(c, "sign") {
		return
	}
	if !ss.Net.Quiescent() {
		c.Violate(p.String()+"/no-quiescence", "sign: step bound hit")
		return
	}
	enc, _ := CheckSignOutcome(c, p, ss, signers, Y, msg, "sign", true)
	c.Res.Sample = map[string]interface{}{"desc": c.Res.Desc, "ids": fmtIDs(ids), "signers": fmtIDs(signers), "signature": enc, "deliveries": len(ss.Net.Delivered), "delivery_seq_head": head(ss.Net.Delivered, 12)}
}

func head(s []string, n int) []string {
	if len(s) > n {
		return s[:n]
	}
	return s
}

var indexPool = []uint32{0, 1, 2, 1<<31 - 1, 1<<31 - 2, 0x10000, 0xdeadbe}

func drawIndex(c *fw.Ctx) uint32 {
	k := c.S.Draw(len(indexPool)+1, "index")
	if k < len(indexPool) {
		return indexPool[k]
	}
	return uint32(c.S.Draw(1<<31-1, "index-random"))
}

package props

import (
	"bytes"
	"errors"
	"fmt"
	"math/big"
	"sort"
	"strings"

	"github.com/taurusgroup/multi-party-sig/internal/round"
	"github.com/taurusgroup/multi-party-sig/pkg/party"
	"github.com/taurusgroup/multi-party-sig/pkg/protocol"
	"github.com/taurusgroup/multi-party-sig/verif/fw"
	"github.com/taurusgroup/multi-party-sig/verif/mut"
	"github.com/taurusgroup/multi-party-sig/verif/ref"
	"github.com/taurusgroup/multi-party-sig/verif/scen"
	"github.com/taurusgroup/multi-party-sig/verif/sim"
)

// Byz is one world with a single deviating party whose outgoing traffic passes through the mutator.
type Byz struct {
	C       *fw.Ctx
	Sc      *scen.Scenario
	Sess    *scen.Session
	Cheater party.ID
	Honest  []party.ID
	Ops     []string
	Headers bool // allow header rewrites
	Liar    bool // consistent-liar mode (adopt honest view hashes)
	// chosen target: the cheater's message with this key is altered
	TargetKey    string
	Targets      []string
	bank         []mut.BankEntry
	Applied      *mut.Result
	AppliedAt    string
	AppliedRound int
	AppliedBcast bool
	honestBV     map[int][]byte
	held         map[int][]heldMsg
	twinMsgs     map[string]*protocol.Message
	Equivocate   map[party.ID]bool // if set: only these recipients get the altered version (C06)
	Malform      bool
	// systematic mode: the alteration is the Cell-th entry of the enumerated catalogue
	// (target message x node x operator), not a drawn one
	Systematic bool
	Cell       int
	CellCount  int
	sysNode    int
	sysOp      string
}

type heldMsg struct {
	m  *protocol.Message
	to *sim.Node
}

func mkey(m *protocol.Message) string {
	return fmt.Sprintf("r%d/b%v/to=%s", m.RoundNumber, m.Broadcast, m.To)
}

func bankEntry(origin string, m *protocol.Message) (mut.BankEntry, bool) {
	if m.RoundNumber == 0 || m.Data == nil {
		return mut.BankEntry{}, false
	}
	t, err := mut.Decode(m.Data)
	if err != nil {
		return mut.BankEntry{}, false
	}
	return mut.BankEntry{Origin: origin, From: string(m.From), To: string(m.To), Round: int(m.RoundNumber), Bcast: m.Broadcast, Tree: t, Data: m.Data}, true
}

// NewByz draws the world: scenario, cheater, target message; runs the twin session to fill the bank.
func NewByz(c *fw.Ctx, o scen.ScenarioOpts, ops []string, malform bool) *Byz {
	return newByz(c, scen.DrawScenario(c, o), ops, malform, -1)
}

// newByz builds the world for a given scenario; cell >= 0 selects the systematic mode.
func newByz(c *fw.Ctx, sc *scen.Scenario, ops []string, malform bool, cell int) *Byz {
	b := &Byz{C: c, Ops: ops, Malform: malform, honestBV: map[int][]byte{}, held: map[int][]heldMsg{}, twinMsgs: map[string]*protocol.Message{}}
	b.Sc = sc
	parts := b.Sc.Parts
	if cell >= 0 {
		b.Systematic, b.Cell = true, cell
		b.Cheater = parts[0]
	} else {
		b.Cheater = parts[c.S.Draw(len(parts), "cheater")]
	}
	for _, id := range parts {
		if id != b.Cheater {
			b.Honest = append(b.Honest, id)
		}
	}
	// twin: identical session except for the cheater's randomness; fault-free, FIFO
	tw := scen.NewSessionL(c, "run", b.Sc.Mk(), nil, func(id party.ID) string {
		if id == b.Cheater {
			return c.Label("twin-cheater", id)
		}
		return ""
	})
	tw.Net.Policy = sim.FIFO{}
	tw.Net.Run()
	c.Res.Steps += tw.Net.Steps
	for _, id := range tw.Order {
		for _, m := range tw.Nodes[id].Sent {
			origin := "twin-honest"
			if id == b.Cheater {
				origin = "twin-cheater"
				if m.RoundNumber > 0 {
					b.Targets = append(b.Targets, mkey(m))
					b.twinMsgs[mkey(m)] = m
				}
			}
			if e, ok := bankEntry(origin, m); ok {
				b.bank = append(b.bank, e)
			}
		}
	}
	if len(b.Targets) == 0 {
		return b
	}
	if b.Systematic {
		// enumerate the catalogue over the twin's messages (same shapes as the real run's): cell ->
		// (target message, node, operator)
		type cellT struct {
			key string
			n   int
			op  string
		}
		var cells []cellT
		for _, k := range b.Targets {
			t, err := mut.Decode(b.twinMsgs[k].Data)
			if err != nil {
				continue
			}
			// representatives only: of the elements of a long array (the OT messages hold hundreds of
			// equally shaped entries) the first, the last and one other position are enumerated
			nodes := mut.Nodes(t)
			classCount := map[string]int{}
			for _, n := range nodes {
				classCount[n.Path.Class()]++
			}
			classSeen := map[string]int{}
			for i, n := range nodes {
				cl := n.Path.Class()
				pos := classSeen[cl]
				classSeen[cl]++
				if total := classCount[cl]; total > 3 && pos != 0 && pos != total-1 && pos != total/2 {
					continue
				}
				for _, op := range b.Ops {
					if mut.Applicable(op, n) {
						cells = append(cells, cellT{k, i, op})
					}
				}
			}
		}
		b.CellCount = len(cells)
		if len(cells) == 0 {
			b.Targets = nil
			return b
		}
		cl := cells[b.Cell%len(cells)]
		b.TargetKey, b.sysNode, b.sysOp = cl.key, cl.n, cl.op
		return b
	}
	b.TargetKey = b.Targets[c.S.Draw(len(b.Targets), "target-message")]
	b.Liar = c.S.Draw(2, "liar") == 1
	return b
}

// alter produces the altered version of the target message.
func (b *Byz) alter(m *protocol.Message) *protocol.Message {
	c := b.C
	nm := *m
	if b.Systematic {
		tree, err := mut.Decode(m.Data)
		if err != nil {
			return m
		}
		nodes := mut.Nodes(tree)
		if b.sysNode >= len(nodes) || !mut.Applicable(b.sysOp, nodes[b.sysNode]) {
			return m
		}
		t2, res, ok := mut.Apply(c.S, mut.Clone(tree), nodes[b.sysNode], b.sysOp, b.bank)
		if !ok {
			return m
		}
		var data []byte
		func() {
			defer func() {
				if recover() != nil {
					data = nil
				}
			}()
			data = mut.Encode(t2)
		}()
		if data == nil || string(data) == string(m.Data) {
			return m
		}
		nm.Data = data
		b.Applied = &res
		return &nm
	}
	// header rewrite / whole-payload substitution / field mutation
	choice := c.S.Draw(10, "alter-kind")
	if b.Headers && choice == 9 {
		final := round.Number(scen.FinalRound(b.Sess.Nodes[b.Cheater].H))
		switch c.S.Draw(8, "header") {
		case 0:
			nm.RoundNumber = m.RoundNumber + 1
			b.Applied = &mut.Result{Op: "header-round+1"}
		case 1:
			nm.RoundNumber = m.RoundNumber - 1
			b.Applied = &mut.Result{Op: "header-round-1"}
		case 2:
			nm.Broadcast = !m.Broadcast
			b.Applied = &mut.Result{Op: "header-broadcast-flip"}
		case 3:
			nm.BroadcastVerification = make([]byte, 64)
			b.Applied = &mut.Result{Op: "header-bv-zero"}
		case 4:
			nm.BroadcastVerification = nil
			b.Applied = &mut.Result{Op: "header-bv-nil"}
		case 5:
			nm.RoundNumber = final + 1
			b.Applied = &mut.Result{Op: "header-round-final+1"}
		case 6:
			if m.To != "" {
				nm.To = ""
				b.Applied = &mut.Result{Op: "header-to-everyone"}
			} else {
				nm.To = b.Honest[c.S.Draw(len(b.Honest), "hdr-to")]
				b.Applied = &mut.Result{Op: "header-to-single"}
			}
		case 7:
			nm.RoundNumber = final
			b.Applied = &mut.Result{Op: "header-round-final"}
		}
		if b.Applied != nil {
			return &nm
		}
	}
	if choice == 7 && b.Headers {
		// compound alterations: a header rewrite together with a matching content change
		switch c.S.Draw(3, "compound") {
		case 0:
			// a point-to-point message re-addressed to "everyone" (To == "", the scalar 0) whose scalar
			// fields are set to a boundary value
			if m.To != "" {
				if tree, err := mut.Decode(m.Data); err == nil {
					var cand []mut.Node
					for _, n := range mut.Nodes(tree) {
						if n.Shape == "bytes32" {
							cand = append(cand, n)
						}
					}
					if len(cand) > 0 {
						n := cand[c.S.Draw(len(cand), "path")]
						vals := [][]byte{make([]byte, 32), append(make([]byte, 31), 1)}
						v := vals[c.S.Draw(len(vals), "value")]
						t2 := mut.Set(mut.Clone(tree), n.Path, v)
						nm.To = ""
						nm.Data = mut.Encode(t2)
						b.Applied = &mut.Result{Op: "readdress-to-all+boundary-scalar", Path: n.Path, Shape: n.Shape}
						return &nm
					}
				}
			}
		case 1:
			// the message meant for another recipient, consistently re-addressed to this one
			for _, e := range b.bank {
				if e.Origin == "same-session-cheater" && e.Round == int(m.RoundNumber) && e.Bcast == m.Broadcast && e.To != string(m.To) && e.To != "" && string(e.Data) != string(m.Data) {
					nm.Data = e.Data
					b.Applied = &mut.Result{Op: "payload-of-other-recipient", Note: " <- to=" + e.To}
					return &nm
				}
			}
		default:
			// a later/earlier round's header with that round's own payload from the twin run
			for _, e := range b.bank {
				if e.Origin == "twin-cheater" && e.Round != int(m.RoundNumber) && e.To == string(m.To) && e.Bcast == m.Broadcast {
					nm.Data = e.Data
					nm.RoundNumber = round.Number(e.Round)
					b.Applied = &mut.Result{Op: "other-round-message", Note: fmt.Sprintf(" <- twin r%d", e.Round)}
					return &nm
				}
			}
		}
	}
	if choice == 8 {
		// whole-payload substitution
		var cands []mut.BankEntry
		for _, e := range b.bank {
			if string(e.Data) == string(m.Data) {
				continue
			}
			cands = append(cands, e)
		}
		if len(cands) > 0 {
			// prefer same-round candidates (other recipient / twin) half of the time
			var same []mut.BankEntry
			for _, e := range cands {
				if e.Round == int(m.RoundNumber) && e.Bcast == m.Broadcast {
					same = append(same, e)
				}
			}
			pick := cands
			if len(same) > 0 && c.S.Draw(2, "payload-same-round") == 0 {
				pick = same
			}
			e := pick[c.S.Draw(len(pick), "payload")]
			nm.Data = e.Data
			b.Applied = &mut.Result{Op: "payload-substitution", Note: fmt.Sprintf(" <- %s from=%s to=%s r%d b=%v", e.Origin, e.From, e.To, e.Round, e.Bcast)}
			return &nm
		}
	}
	tree, err := mut.Decode(m.Data)
	if err != nil {
		return m
	}
	nodes := mut.Nodes(tree)
	for try := 0; try < 8; try++ {
		// operator first, then a node it applies to: keeps the operator mix even
		op := b.Ops[c.S.Draw(len(b.Ops), "op")]
		var apps []mut.Node
		for _, n := range nodes {
			if mut.Applicable(op, n) {
				apps = append(apps, n)
			}
		}
		if len(apps) == 0 {
			continue
		}
		n := mut.PickNode(c.S, apps)
		t2, res, ok := mut.Apply(c.S, mut.Clone(tree), n, op, b.bank)
		if !ok {
			continue
		}
		var data []byte
		func() {
			defer func() {
				if recover() != nil {
					data = nil
				}
			}()
			data = mut.Encode(t2)
		}()
		if data == nil || string(data) == string(m.Data) {
			continue
		}
		nm.Data = data
		b.Applied = &res
		return &nm
	}
	return m
}

// Start builds the real session with the mutator installed.
func (b *Byz) Start() {
	c := b.C
	b.Sess = scen.NewSessionL(c, "run", b.Sc.Mk(), func(id party.ID) bool { return id != b.Cheater }, nil)
	n := b.Sess.Net
	cheaterNode := b.Sess.Nodes[b.Cheater]
	n.PreEmit = func(from *sim.Node, msgs []*protocol.Message) {
		for _, m := range msgs {
			origin := "same-session-honest"
			if from.ID == b.Cheater {
				origin = "same-session-cheater"
			}
			if e, ok := bankEntry(origin, m); ok {
				b.bank = append(b.bank, e)
			}
			if from.ID != b.Cheater && b.Applied != nil && b.Liar && m.RoundNumber > 0 {
				r := int(m.RoundNumber)
				if _, known := b.honestBV[r]; !known {
					b.honestBV[r] = m.BroadcastVerification
					// the cheater adopts the honest view of round r-1 ...
					if m.BroadcastVerification != nil {
						scen.SetBroadcastHash(cheaterNode.H, r-1, m.BroadcastVerification)
					}
					// ... and its held messages for round r go out with that view hash
					for _, h := range b.held[r] {
						mm := *h.m
						mm.BroadcastVerification = m.BroadcastVerification
						n.Enqueue(cheaterNode, &mm, h.to, "liar")
						c.Fault("liar_viewhash_copied", 1)
					}
					delete(b.held, r)
				}
			}
		}
	}
	var altered *protocol.Message
	var alteredFor *protocol.Message
	n.Mutate = func(from *sim.Node, m *protocol.Message, to *sim.Node) *protocol.Message {
		if from.ID != b.Cheater {
			return m
		}
		out := m
		if m.RoundNumber == 0 {
			// the cheater's own abort notices are suppressed: a real attacker would not announce itself
			return nil
		}
		if mkey(m) == b.TargetKey && (b.Applied == nil || alteredFor == m) {
			if alteredFor != m {
				altered = b.alter(m)
				alteredFor = m
				if b.Applied != nil {
					b.AppliedAt = mkey(m)
					b.AppliedRound = int(m.RoundNumber)
					b.AppliedBcast = m.Broadcast
				}
			}
			if b.Applied != nil && (b.Equivocate == nil || b.Equivocate[to.ID]) {
				out = altered
			}
		}
		if b.Applied != nil && b.Liar && int(m.RoundNumber) > b.AppliedRound && out == m {
			r := int(m.RoundNumber)
			if bv, ok := b.honestBV[r]; ok {
				mm := *m
				mm.BroadcastVerification = bv
				c.Fault("liar_viewhash_copied", 1)
				return &mm
			}
			b.held[r] = append(b.held[r], heldMsg{m, to})
			return nil
		}
		return out
	}
}

// Run executes the world.
func (b *Byz) Run() {
	b.Sess.Run(b.C, true)
	// drops reported by the net include liar holds; not a fault kind of interest
	delete(b.C.Res.Faults, "drop")
}

// --------------- oracles ---------------

// outcome classifies an honest party at the end of the world.
type outcome struct {
	id      party.ID
	dead    bool
	value   interface{}
	err     error
	pending bool
}

func (b *Byz) outcomes() []outcome {
	var out []outcome
	for _, id := range b.Honest {
		nd := b.Sess.Nodes[id]
		o := outcome{id: id}
		switch {
		case nd.Dead || nd.H == nil:
			o.dead = true
		default:
			v, err := nd.H.Result()
			if err == nil {
				o.value = v
			} else if sim.IsNotFinished(err) {
				o.pending = true
			} else {
				o.err = err
			}
		}
		out = append(out, o)
	}
	return out
}

// where names the alteration for signatures: protocol/kind/round/op/path-class.
func (b *Byz) where() string {
	if b.Applied == nil {
		return "none"
	}
	return fmt.Sprintf("%s/%s/%s/%s@%s", b.Sc.Proto, b.Sc.Kind, b.AppliedAt[:strings.Index(b.AppliedAt, "/to=")], b.Applied.Op, b.Applied.Path.Class())
}

// CheckResults is C03's oracle: no honest party finishes with a wrong result.
func (b *Byz) CheckResults() {
	c := b.C
	sc := b.Sc
	outs := b.outcomes()
	fin := map[party.ID]interface{}{}
	for _, o := range outs {
		if o.value != nil {
			fin[o.id] = o.value
		}
	}
	if len(fin) == 0 {
		return
	}
	c.Probe("honest_finished_despite_alteration", len(fin))
	switch sc.Kind {
	case scen.KSign, scen.KPresignFull, scen.KPresignOnline:
		for _, id := range sortedPartyKeys(fin) {
			enc, ok, how := scen.SigCheck(sc.Proto, fin[id], sc.Y, sc.Msg)
			if !ok {
				c.Violate("wrong-signature/"+b.where(), "honest signer %q finished with a signature rejected by the reference verifier (%s): %s\n  alteration: %s by %q in %s", id, how, enc, b.Applied, b.Cheater, b.AppliedAt)
			}
		}
	case scen.KKeygen, scen.KRefresh:
		// consistency among honest finishers: same group key, same table, own share matches table
		ids := sortedPartyKeys(fin)
		m := scen.Collect(sc.Proto, ids, sc.T, fin)
		Y0 := m.PublicKey(ids[0])
		t0 := m.PubShares(ids[0])
		for _, id := range ids {
			if !m.PublicKey(id).Equal(Y0) {
				c.Violate("inconsistent-group-key/"+b.where(), "honest parties %q and %q finished with different group keys\n  alteration: %s by %q in %s", ids[0], id, b.Applied, b.Cheater, b.AppliedAt)
			}
			ti := m.PubShares(id)
			if ti != nil {
				for j, pj := range ti {
					if q, has := t0[j]; !has || !q.Equal(pj) {
						c.Violate("inconsistent-table/"+b.where(), "honest parties %q and %q finished with different public shares for %q\n  alteration: %s by %q in %s", ids[0], id, j, b.Applied, b.Cheater, b.AppliedAt)
						break
					}
				}
				if own, has := ti[string(id)]; !has || !scenBaseMul(m.Share(id)).Equal(own) {
					c.Violate("share-mismatch-table/"+b.where(), "honest party %q finished with a share that does not match its table entry\n  alteration: %s by %q in %s", id, b.Applied, b.Cheater, b.AppliedAt)
				}
			}
			if ck0, ck := m.ChainKey(ids[0]), m.ChainKey(id); !bytes.Equal(ck0, ck) {
				c.Violate("inconsistent-chain-key/"+b.where(), "honest parties %q and %q finished with different chain keys (%x.. / %x..)\n  alteration: %s by %q in %s", ids[0], id, ck0[:minI(4, len(ck0))], ck[:minI(4, len(ck))], b.Applied, b.Cheater, b.AppliedAt)
			}
			if sc.Proto == scen.CMP && m.AuxTable(id) != m.AuxTable(ids[0]) {
				c.Violate("inconsistent-aux-table/"+b.where(), "honest parties %q and %q finished with different auxiliary keys", ids[0], id)
			}
		}
		if sc.Kind == scen.KRefresh && sc.HasY && !Y0.Inf && !Y0.Equal(sc.Y) {
			c.Violate("refresh-changed-group-key/"+b.where(), "honest party %q finished a refresh with a different group key than before\n  alteration: %s by %q in %s", ids[0], b.Applied, b.Cheater, b.AppliedAt)
		}
	case scen.KXor, scen.KPresign:
		c.Probe("unjudged_result_kind", 1)
	}
}

func sortedPartyKeys(m map[party.ID]interface{}) []party.ID {
	var ids []party.ID
	for id := range m {
		ids = append(ids, id)
	}
	sort.Slice(ids, func(i, j int) bool { return ids[i] < ids[j] })
	return ids
}

// CheckBlame is C04's oracle.
func (b *Byz) CheckBlame() {
	c := b.C
	isHonest := map[party.ID]bool{}
	for _, id := range b.Honest {
		isHonest[id] = true
	}
	for _, o := range b.outcomes() {
		if o.err == nil {
			continue
		}
		var pe protocol.Error
		if !errors.As(o.err, &pe) {
			var pp *protocol.Error
			if errors.As(o.err, &pp) && pp != nil {
				pe = *pp
			} else {
				c.Probe("error_without_culprit_structure", 1)
				continue
			}
		}
		c.Probe("honest_errors_examined", 1)
		relayed := pe.Err != nil && strings.HasPrefix(pe.Err.Error(), "aborted by other party")
		if relayed {
			// the origin of the notice must be a participant that actually sent a notice
			c.Probe("relayed_abort_notices", 1)
			if len(pe.Culprits) != 1 {
				c.Violate("relayed-abort-culprits/"+b.Sc.Proto.String()+"/"+b.Sc.Kind.String(), "party %q: relayed abort notice names %v (want exactly the origin of the notice)", o.id, pe.Culprits)
				continue
			}
			origin := pe.Culprits[0]
			nd := b.Sess.Nodes[origin]
			sentNotice := false
			if nd != nil {
				for _, m := range nd.Sent {
					if m.RoundNumber == 0 {
						sentNotice = true
					}
				}
			}
			if !sentNotice {
				c.Violate("relayed-abort-wrong-origin/"+b.Sc.Proto.String()+"/"+b.Sc.Kind.String(), "party %q reports an abort notice from %q, which never sent one", o.id, origin)
			}
			continue
		}
		// one specific wrong-blame site gets its own signature: the identifiable-abort rounds of cmp
		// presign (round 7 = abort1, round 8 = abort2) failing to verify an HONEST sender's decryption proof
		if pe.Err != nil && strings.Contains(pe.Err.Error(), "failed to validate Delta MtA Nth proof") && len(pe.Culprits) == 1 && isHonest[pe.Culprits[0]] {
			rn := "round?"
			if f := strings.Fields(pe.Err.Error()); len(f) >= 2 && f[0] == "round" {
				rn = "round" + strings.TrimSuffix(f[1], ":")
			}
			c.Violate("identifiable-abort-rejects-honest-senders-proof/"+b.Sc.Kind.String()+"/"+rn, "honest signer %q ended the identifiable-abort round with %q naming HONEST signer %q (deviating signer: %q; %s)", o.id, trimS(pe.Err.Error(), 120), pe.Culprits[0], b.Cheater, b.Applied)
			continue
		}
		for _, cu := range pe.Culprits {
			if isHonest[cu] {
				c.Violate("honest-party-blamed/"+b.where(), "honest party %q ended with error %q naming honest party %q as culprit\n  alteration: %s by %q in %s", o.id, trimS(pe.Err.Error(), 200), cu, b.Applied, b.Cheater, b.AppliedAt)
			}
		}
		// decode / verification failures must be attributed to the sender
		msg := ""
		if pe.Err != nil {
			msg = pe.Err.Error()
		}
		if strings.Contains(msg, "failed to unmarshal") || strings.HasPrefix(msg, "round ") {
			if len(pe.Culprits) != 1 || pe.Culprits[0] != b.Cheater {
				c.Violate("verification-failure-not-attributed/"+b.where(), "party %q: decode/verify failure %q names %v, want [%s]", o.id, trimS(msg, 200), pe.Culprits, b.Cheater)
			} else {
				c.Probe("cheater_correctly_blamed", 1)
			}
		}
	}
}

// CheckClean is C05's end-state oracle for honest parties (crash/hang are checked by CheckCrash).
func (b *Byz) CheckClean() {
	c := b.C
	for _, id := range b.Honest {
		nd := b.Sess.Nodes[id]
		if nd.Dead || nd.H == nil {
			continue
		}
		_, err := nd.H.Result()
		ended := err == nil || !sim.IsNotFinished(err)
		if ended && !nd.Closed {
			// closing may simply not have been observed yet: poll the channel once
			nd.Closed = scen.ChanClosed(nd.H)
		}
		if ended != nd.Closed {
			c.Violate("unclean-end/"+b.Sc.Proto.String()+"/"+b.Sc.Kind.String(), "party %q: session ended=%v but outgoing channel closed=%v (result err: %v)\n  alteration: %s in %s", id, ended, nd.Closed, err, b.Applied, b.AppliedAt)
		}
	}
}

func scenBaseMul(x *big.Int) ref.Pt { return ref.BaseMul(x) }

func honestSet(b *Byz) map[party.ID]bool {
	m := map[party.ID]bool{}
	for _, id := range b.Honest {
		m[id] = true
	}
	return m
}

var c09applied = mut.Result{Op: "replay-under-other-sender"}

func minI(a, b int) int {
	if a < b {
		return a
	}
	return b
}

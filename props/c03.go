package props

import (
	"fmt"
	"github.com/taurusgroup/multi-party-sig/pkg/party"

	"github.com/taurusgroup/multi-party-sig/verif/fw"
	"github.com/taurusgroup/multi-party-sig/verif/mut"
	"github.com/taurusgroup/multi-party-sig/verif/scen"
)

var byzStub = map[string][]string{
	"real": {"handlers incl. echo-broadcast check", "all round code and every verification step", "zk proofs", "paillier", "ot"},
	"stub": {"network", "randomness source", "CMP key material from harness dealer (keygen/refresh kinds run the real rounds)", "prime search", "the deviating party = real handler + outgoing mutator"},
}

func byzOpts(c *fw.Ctx, cmp int) scen.ScenarioOpts {
	return scen.ScenarioOpts{CMPPerMille: cmpRate(c, cmp), MinN: 3, MaxN: 5}
}

func init() {
	fw.Register(&fw.PropDef{
		ID: "C03", Level: "fault_enumeration", Engine: "netsim+byzantine",
		Cases: func(tier string) int {
			if tier == "thorough" {
				return 60000
			}
			return 2500
		},
		Run:  runC03,
		Rule: "fault catalogue = (protocol x session kind x cheater position x message kind (round, broadcast/p2p, recipient) x field path (with descent into nested encodings) x operator {bitflip, +-1, zero, boundary values by shape, copy from another message (other recipient/round/sender/twin run), swap siblings, drop, null, empty, array shrink/grow with coordinated length prefix, point negation, random same-length, whole-payload substitution, header rewrite} x liar mode {naive, consistent}); one case samples one cell by seed, runs the session on the simulated network with one deviating party and judges every honest party's outcome with the reference verifiers. Non-trivial = the alteration actually fired on an in-flight message. Distinct = distinct (protocol, kind, message kind, operator, path class, liar mode).",
		Assumptions: []string{
			"exactly one deviating party per world; authenticated channels (the cheater cannot forge other senders)",
			"a removed check that no catalogued alteration turns into a wrong result is invisible to this property (see DESIGN.md C03 'what it cannot see')",
			"presignature (offline) results and xor results are not judged for correctness",
		},
		RealStub: byzStub,
	})
}

func runC03(c *fw.Ctx) {
	if c.S.Draw(16, "c03-dealer") == 15 {
		runDealer(c, func(b *Byz) { b.CheckResults() })
		return
	}
	b := NewByz(c, byzOpts(c, 10), mut.SemanticOps, false)
	b.Headers = true
	if len(b.Targets) == 0 {
		return
	}
	// selective tampering: the altered version of a broadcast reaches only some of the honest parties,
	// the others get the genuine one. In a protected round this is C06's equivocation (and must end in
	// aborts); in a FINAL round nothing is echoed any more and only the round's own checks (openings
	// of earlier commitments, proofs) stand between the tamperer and diverging results.
	selective := ""
	if len(b.Honest) >= 2 && c.S.Draw(3, "selective") == 2 {
		b.Equivocate = map[party.ID]bool{}
		for len(b.Equivocate) == 0 || len(b.Equivocate) == len(b.Honest) {
			b.Equivocate = map[party.ID]bool{}
			for _, id := range b.Honest {
				if c.S.Draw(2, "gets-altered") == 1 {
					b.Equivocate[id] = true
				}
			}
			if c.S.Replay && (len(b.Equivocate) == 0 || len(b.Equivocate) == len(b.Honest)) {
				b.Equivocate = map[party.ID]bool{b.Honest[0]: true}
			}
		}
		selective = fmt.Sprintf(" selective=%d/%d", len(b.Equivocate), len(b.Honest))
		c.Fault("selective_tampering", 1)
	}
	b.Start()
	b.Run()
	c.Res.Desc = fmt.Sprintf("%s cheater=%q target=%s liar=%v%s alteration=%v policy=%s", b.Sc.Name, b.Cheater, b.TargetKey, b.Liar, selective, b.Applied, b.Sess.Net.Policy.Name())
	if b.Applied == nil {
		return
	}
	c.Res.NonTrivial = true
	c.Res.DistinctID = fmt.Sprintf("%s|liar=%v", b.where(), b.Liar)
	c.Fault("byzantine_alteration:"+b.Applied.Op, 1)
	if b.Liar {
		c.Fault("consistent_liar_worlds", 1)
	}
	for _, id := range b.Honest {
		if b.Sess.Nodes[id].Panic != "" {
			c.Probe("honest_panic_seen_(reported_by_C05)", 1)
		}
	}
	b.CheckResults()
	outs := b.outcomes()
	st := ""
	for _, o := range outs {
		switch {
		case o.dead:
			st += "D"
		case o.value != nil:
			st += "V"
		case o.pending:
			st += "P"
		default:
			st += "E"
		}
	}
	c.Res.States = append(c.Res.States, "outcome:"+b.where()+":"+st)
	c.Res.Sample = map[string]interface{}{"desc": c.Res.Desc, "honest_outcomes(V=value,E=error,P=pending,D=crashed)": st}
}

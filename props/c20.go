package props

import (
	"crypto/rand"
	"fmt"
	"github.com/taurusgroup/multi-party-sig/internal/types"
	"github.com/taurusgroup/multi-party-sig/pkg/math/curve"
	"github.com/taurusgroup/multi-party-sig/pkg/math/sample"
	"math"
	"runtime/debug"
	"strings"

	"github.com/taurusgroup/multi-party-sig/pkg/ecdsa"
	"github.com/taurusgroup/multi-party-sig/pkg/party"
	"github.com/taurusgroup/multi-party-sig/pkg/protocol"
	"github.com/taurusgroup/multi-party-sig/protocols/cmp"
	cmppresign "github.com/taurusgroup/multi-party-sig/protocols/cmp/presign"
	"github.com/taurusgroup/multi-party-sig/protocols/doerner"
	"github.com/taurusgroup/multi-party-sig/protocols/frost"
	"github.com/taurusgroup/multi-party-sig/verif/fw"
	"github.com/taurusgroup/multi-party-sig/verif/scen"
	"github.com/taurusgroup/multi-party-sig/verif/sim"
)

func init() {
	fw.Register(&fw.PropDef{
		ID: "C20", Level: "fault_enumeration", Engine: "netsim",
		Cases: func(tier string) int {
			if tier == "thorough" {
				return 20000
			}
			return 1500
		},
		Run:  runC20,
		Rule: "lattice = (start function of every protocol: cmp keygen/refresh/sign/presign/presign-full/presign-online, frost and frost-taproot keygen/refresh/sign, doerner keygen/refresh/sign for both roles) x (one invalid parameter: threshold in {-1, n, n+1, MaxUint32, MaxUint32+1}; identifier list with duplicates / without self / with an empty identifier; signer set of size <= t / with a non-shareholder / with duplicates / without self; empty and nil message; nil, zero-value and field-stripped key material; nil, empty and entry-stripped presignature), alone and (second parameter drawn) in pairs. Every party of the session is started with the bad parameter; construction must return an error without panicking. If a handler is returned nevertheless, the session is simulated with the other parties and the consequences (panic, stall at quiescence) are recorded in the report. Non-trivial = a start function was actually invoked with an invalid parameter. Distinct = (start function, parameter class, second parameter class).",
		Assumptions: []string{
			"an invalid parameter is one of the classes the property lists; mismatched-but-individually-valid parameters (e.g. parties disagreeing on the threshold) are not demanded to be refused",
		},
		RealStub: map[string][]string{
			"real": {"all public start functions", "round.NewSession", "handler constructors", "continuation on the simulated network"},
			"stub": {"network", "randomness", "CMP material from dealer", "prime search"},
		},
	})
}

// badCase is one misconfigured session: constructors for every participant.
type badCase struct {
	fn, class string
	mk        map[party.ID]scen.Mk
}

const foreignID = party.ID("zz-not-a-shareholder")

func mutateIDs(c *fw.Ctx, ids []party.ID, self party.ID, class string) []party.ID {
	out := append([]party.ID{}, ids...)
	switch class {
	case "ids-duplicate":
		out = append(out, out[len(out)-1])
	case "ids-without-self":
		var o []party.ID
		for _, id := range out {
			if id != self {
				o = append(o, id)
			}
		}
		out = o
	case "ids-proper-subset-of-holders", "ids-holder-replaced-by-stranger":
		// (refresh) every holder of the key must take part: one OTHER holder is left out, or replaced
		for i := len(out) - 1; i >= 0; i-- {
			if out[i] != self {
				if class == "ids-proper-subset-of-holders" {
					out = append(out[:i:i], out[i+1:]...)
				} else {
					out[i] = foreignID
				}
				break
			}
		}
	case "ids-empty-identifier":
		out = append(out, "")
	case "ids-empty-list":
		out = nil
	}
	return out
}

var badThresholds = func(n int) []int {
	return []int{-1, n, n + 1, math.MaxUint32, math.MaxUint32 + 1}
}

// agedMaterial: start-time validation must not depend on the key being fresh - in half of the cases
// the material has been through a derivation or a refresh (which must carry threshold, tables and
// identifiers over unchanged).
func agedMaterial(c *fw.Ctx, m *scen.Material) *scen.Material {
	switch c.S.Draw(4, "material-age") {
	case 2:
		if m2, errs := m.DeriveChild(drawIndex(c)); len(errs) == 0 {
			c.Probe("start_checked_on_derived_material", 1)
			return m2
		}
	case 3:
		if m.Proto != scen.CMP {
			rs := scen.NewSession(c, "age-rf", m.RefreshMk([]byte(c.Label("sid", "age-rf"))), nil)
			rs.Net.Policy = sim.FIFO{}
			rs.Net.Run()
			if vals, errs := rs.Results(); len(errs) == 0 {
				c.Probe("start_checked_on_refreshed_material", 1)
				return scen.Collect(m.Proto, m.IDs, m.T, vals)
			}
		}
	}
	return m
}

func runC20(c *fw.Ctx) {
	fam := c.S.Draw(3, "family") // 0 frost, 1 doerner, 2 cmp
	if fam == 2 && !c.S.Bool(cmpRate(c, 250), 1000, "cmp") {
		fam = c.S.Draw(2, "family2")
	}
	var bc *badCase
	if c.S.Draw(12, "presignature-family") == 11 {
		// invalid presignatures handed to cmp.PresignOnline (start-time validation needs no genuine
		// presign session: the tables are well-formed hand-made ones, damaged in one respect)
		fam = 3
	}
	switch fam {
	case 3:
		bc = badCMP(c, true)
	case 0:
		bc = badFrost(c)
	case 1:
		bc = badDoerner(c)
	default:
		bc = badCMP(c, false)
	}
	if bc == nil {
		return
	}
	c.Res.Desc = fmt.Sprintf("%s with %s", bc.fn, bc.class)
	c.Res.DistinctID = bc.fn + "|" + bc.class
	c.Res.NonTrivial = true
	c.Fault("invalid_parameter:"+strings.Split(bc.class, "+")[0], 1)
	// construct every participant
	n := sim.NewNet(c.S, c.R)
	n.NoLog = !c.KeepLog
	n.CallTimeout = 40e9
	ids := make([]party.ID, 0, len(bc.mk))
	for id := range bc.mk {
		ids = append(ids, id)
	}
	ids = sortedP(ids)
	accepted := 0
	nodes := map[party.ID]*sim.Node{}
	for _, id := range ids {
		mk := bc.mk[id]
		// the public start function itself may panic before a StartFunc exists
		var node *sim.Node
		var err error
		func() {
			defer func() {
				if p := recover(); p != nil {
					st := string(debug.Stack())
					c.Violate("panic-at-start/"+bc.fn+"/"+bc.class, "%s: party %q: start panicked instead of returning an error: %v\n%s", c.Res.Desc, id, p, trim5(st))
				}
			}()
			node, err = n.Add(id, c.Label("run", id), true, "run", mk)
		}()
		if node == nil {
			return
		}
		nodes[id] = node
		if node.Panic != "" {
			first := node.Panic
			if i := strings.Index(first, "\n"); i > 0 {
				first = first[:i]
			}
			c.Violate("panic-at-start/"+bc.fn+"/"+bc.class, "%s: party %q: handler construction panicked instead of returning an error: %s\n%s", c.Res.Desc, id, first, trim5(node.Panic))
			return
		}
		if node.Hang {
			c.Violate("hang-at-start/"+bc.fn+"/"+bc.class, "%s: party %q: handler construction did not return", c.Res.Desc, id)
			return
		}
		if err == nil && node.H != nil {
			accepted++
		}
	}
	if accepted == 0 {
		c.Probe("refused_at_start", 1)
		c.Res.Sample = map[string]interface{}{"desc": c.Res.Desc, "outcome": "refused at start"}
		return
	}
	// accepted: simulate the continuation to report what it leads to
	n.Policy = sim.FIFO{}
	n.Run()
	c.Res.Steps += n.Steps
	conseq := []string{}
	for _, id := range ids {
		nd := nodes[id]
		switch {
		case nd.Panic != "":
			conseq = append(conseq, fmt.Sprintf("%q panicked in %s", id, nd.PanicFn))
		case nd.Hang:
			conseq = append(conseq, fmt.Sprintf("%q hung", id))
		case nd.H == nil:
			conseq = append(conseq, fmt.Sprintf("%q refused", id))
		default:
			v, e := nd.H.Result()
			conseq = append(conseq, fmt.Sprintf("%q: %s", id, classify(v, e)))
		}
	}
	c.Violate("accepted-invalid-parameter/"+bc.fn+"/"+bc.class, "%s: %d of %d parties obtained a handler although the parameter cannot lead to a valid run; simulated continuation: %s", c.Res.Desc, accepted, len(ids), strings.Join(conseq, "; "))
	c.Res.Sample = map[string]interface{}{"desc": c.Res.Desc, "outcome": "accepted", "continuation": conseq}
}

func sortedP(ids []party.ID) []party.ID {
	out := append([]party.ID{}, ids...)
	for i := 1; i < len(out); i++ {
		for j := i; j > 0 && out[j] < out[j-1]; j-- {
			out[j], out[j-1] = out[j-1], out[j]
		}
	}
	return out
}

var msgClasses = []string{"message-nil", "message-empty"}

func badMsg(class string, msg []byte) []byte {
	switch class {
	case "message-nil":
		return nil
	case "message-empty":
		return []byte{}
	}
	return msg
}

// ---------------- FROST ----------------

func badFrost(c *fw.Ctx) *badCase {
	taproot := c.S.Draw(2, "taproot") == 1
	p := scen.FROST
	name := "frost"
	if taproot {
		p = scen.FROSTTaproot
		name = "frost-taproot"
	}
	n := 2 + c.S.Draw(3, "n")
	t := c.S.Draw(n, "t")
	ids := scen.DrawIDs(c.S, n)
	sid := []byte(c.Label("sid"))
	kind := c.S.Draw(3, "fn") // keygen, refresh, sign
	bc := &badCase{mk: map[party.ID]scen.Mk{}}
	switch kind {
	case 0:
		bc.fn = name + ".Keygen"
		classes := []string{"threshold", "ids-duplicate", "ids-without-self", "ids-empty-identifier", "ids-empty-list"}
		bc.class = classes[c.S.Draw(len(classes), "class")]
		th := t
		if bc.class == "threshold" {
			bt := badThresholds(n)
			th = bt[c.S.Draw(len(bt), "bad-threshold")]
			bc.class = fmt.Sprintf("threshold=%s", thName(th, n))
		}
		for _, id := range ids {
			id := id
			pids := ids
			if strings.HasPrefix(bc.class, "ids-") {
				pids = mutateIDs(c, ids, id, bc.class)
			}
			bc.mk[id] = func() (protocol.Handler, error) {
				if taproot {
					return protocol.NewMultiHandler(frost.KeygenTaproot(id, pids, th), sid)
				}
				return protocol.NewMultiHandler(frost.Keygen(scen.Group, id, pids, th), sid)
			}
		}
	case 1:
		bc.fn = name + ".Refresh"
		m := scen.PrepMaterial(c, p, ids, t, "prep")
		classes := []string{"config-nil", "config-zero-value", "ids-duplicate", "ids-without-self", "config-stripped-share", "config-stripped-table", "ids-proper-subset-of-holders", "ids-holder-replaced-by-stranger"}
		bc.class = classes[c.S.Draw(len(classes), "class")]
		if strings.HasPrefix(bc.class, "ids-proper") && n < 3 {
			bc.class = "ids-holder-replaced-by-stranger"
		}
		for _, id := range ids {
			id := id
			pids := ids
			if strings.HasPrefix(bc.class, "ids-") {
				pids = mutateIDs(c, ids, id, bc.class)
			}
			cfg := m.Cfg[id]
			bc.mk[id] = func() (protocol.Handler, error) {
				if taproot {
					var tc *frost.TaprootConfig
					switch bc.class {
					case "config-nil":
					case "config-zero-value":
						tc = &frost.TaprootConfig{}
					case "config-stripped-share":
						tc = cfg.(*frost.TaprootConfig).Clone()
						tc.PrivateShare = nil
					case "config-stripped-table":
						tc = cfg.(*frost.TaprootConfig).Clone()
						tc.VerificationShares = nil
					default:
						tc = cfg.(*frost.TaprootConfig)
					}
					return protocol.NewMultiHandler(frost.RefreshTaproot(tc, pids), sid)
				}
				var fc *frost.Config
				switch bc.class {
				case "config-nil":
				case "config-zero-value":
					fc = &frost.Config{}
				case "config-stripped-share":
					cc := *cfg.(*frost.Config)
					cc.PrivateShare = nil
					fc = &cc
				case "config-stripped-table":
					cc := *cfg.(*frost.Config)
					cc.VerificationShares = nil
					fc = &cc
				default:
					fc = cfg.(*frost.Config)
				}
				return protocol.NewMultiHandler(frost.Refresh(fc, pids), sid)
			}
		}
	default:
		bc.fn = name + ".Sign"
		if t == 0 && c.S.Draw(2, "t-bump") == 1 && n > 1 {
			t = 1
		}
		fresh := scen.PrepMaterial(c, p, ids, t, "prep")
		m := agedMaterial(c, fresh)
		msg := scen.DrawMsg(c)
		signers := scen.DrawSubset(c.S, ids, t+1)
		classes := []string{"signers-too-few", "signers-non-shareholder", "signers-duplicate", "signers-without-self", "message-nil", "message-empty", "config-nil", "config-zero-value", "config-stripped-share", "config-stripped-table", "signers-foreign-replaces-shareholder"}
		bc.class = classes[c.S.Draw(len(classes), "class")]
		if m != fresh && c.S.Draw(3, "aged-too-few") == 2 {
			bc.class = "signers-too-few" // what a derivation or refresh must carry over is the threshold
		}
		if bc.class == "signers-too-few" && t == 0 {
			bc.class = "signers-non-shareholder"
		}
		second := ""
		if c.S.Draw(4, "pair") == 3 {
			second = msgClasses[c.S.Draw(2, "second")]
		}
		for _, id := range signers {
			id := id
			sg := signers
			switch bc.class {
			case "signers-too-few":
				// exactly t signers, self included
				var o []party.ID
				o = append(o, id)
				for _, x := range signers {
					if x != id && len(o) < t {
						o = append(o, x)
					}
				}
				sg = o
			case "signers-non-shareholder":
				sg = append(append([]party.ID{}, signers...), foreignID)
			case "signers-foreign-replaces-shareholder":
				sg = replaceOneWithForeign(ids, id)
			case "signers-duplicate":
				sg = append(append([]party.ID{}, signers...), signers[0])
			case "signers-without-self":
				sg = mutateIDs(c, signers, id, "ids-without-self")
				if len(sg) <= t {
					sg = append(sg, foreignID)
				}
			}
			mm := badMsg(bc.class, msg)
			if second != "" {
				mm = badMsg(second, mm)
			}
			cfg := m.Cfg[id]
			bc.mk[id] = func() (protocol.Handler, error) {
				if taproot {
					tc, _ := cfg.(*frost.TaprootConfig)
					switch bc.class {
					case "config-nil":
						tc = nil
					case "config-zero-value":
						tc = &frost.TaprootConfig{}
					case "config-stripped-share":
						tc = tc.Clone()
						tc.PrivateShare = nil
					case "config-stripped-table":
						tc = tc.Clone()
						tc.VerificationShares = nil
					}
					return protocol.NewMultiHandler(frost.SignTaproot(tc, sg, mm), sid)
				}
				fc, _ := cfg.(*frost.Config)
				switch bc.class {
				case "config-nil":
					fc = nil
				case "config-zero-value":
					fc = &frost.Config{}
				case "config-stripped-share":
					cc := *fc
					cc.PrivateShare = nil
					fc = &cc
				case "config-stripped-table":
					cc := *fc
					cc.VerificationShares = nil
					fc = &cc
				}
				return protocol.NewMultiHandler(frost.Sign(fc, sg, mm), sid)
			}
		}
		if second != "" {
			bc.class += "+" + second
		}
	}
	return bc
}

func thName(th, n int) string {
	switch th {
	case -1:
		return "-1"
	case n:
		return "n"
	case n + 1:
		return "n+1"
	case math.MaxUint32:
		return "MaxUint32"
	case math.MaxUint32 + 1:
		return "MaxUint32+1"
	}
	return fmt.Sprint(th)
}

// ---------------- Doerner ----------------

func badDoerner(c *fw.Ctx) *badCase {
	ids := scen.DrawIDs(c.S, 2)
	sid := []byte(c.Label("sid"))
	kind := c.S.Draw(3, "fn")
	bc := &badCase{mk: map[party.ID]scen.Mk{}}
	switch kind {
	case 0:
		bc.fn = "doerner.Keygen"
		classes := []string{"ids-self-equals-other", "ids-empty-identifier"}
		bc.class = classes[c.S.Draw(len(classes), "class")]
		for i, id := range ids {
			id, i := id, i
			other := ids[1-i]
			bc.mk[id] = func() (protocol.Handler, error) {
				self := id
				switch bc.class {
				case "ids-self-equals-other":
					other = self
				case "ids-empty-identifier":
					other = ""
				}
				return protocol.NewTwoPartyHandler(doerner.Keygen(scen.Group, i == 0, self, other, nil), sid, i == 0)
			}
		}
	case 1:
		bc.fn = "doerner.Refresh"
		m := scen.PrepMaterial(c, scen.Doerner, ids, 1, "prep")
		classes := []string{"config-nil", "config-zero-value", "config-stripped-share", "config-stripped-setup", "ids-self-equals-other"}
		bc.class = classes[c.S.Draw(len(classes), "class")]
		for i, id := range ids {
			id, i := id, i
			other := ids[1-i]
			cfg := m.Cfg[id]
			bc.mk[id] = func() (protocol.Handler, error) {
				if bc.class == "ids-self-equals-other" {
					other = id
				}
				if i == 0 {
					rc, _ := cfg.(*doerner.ConfigReceiver)
					switch bc.class {
					case "config-nil":
						rc = nil
					case "config-zero-value":
						rc = &doerner.ConfigReceiver{}
					case "config-stripped-share":
						cc := *rc
						cc.SecretShare = nil
						rc = &cc
					case "config-stripped-setup":
						cc := *rc
						cc.Setup = nil
						rc = &cc
					}
					return protocol.NewTwoPartyHandler(doerner.RefreshReceiver(rc, id, other, nil), sid, true)
				}
				sc, _ := cfg.(*doerner.ConfigSender)
				switch bc.class {
				case "config-nil":
					sc = nil
				case "config-zero-value":
					sc = &doerner.ConfigSender{}
				case "config-stripped-share":
					cc := *sc
					cc.SecretShare = nil
					sc = &cc
				case "config-stripped-setup":
					cc := *sc
					cc.Setup = nil
					sc = &cc
				}
				return protocol.NewTwoPartyHandler(doerner.RefreshSender(sc, id, other, nil), sid, false)
			}
		}
	default:
		bc.fn = "doerner.Sign"
		m := scen.PrepMaterial(c, scen.Doerner, ids, 1, "prep")
		msg := scen.DrawMsg(c)
		classes := []string{"config-nil", "config-zero-value", "config-stripped-share", "config-stripped-setup", "message-nil", "message-empty", "ids-self-equals-other"}
		bc.class = classes[c.S.Draw(len(classes), "class")]
		for i, id := range ids {
			id, i := id, i
			other := ids[1-i]
			cfg := m.Cfg[id]
			mm := badMsg(bc.class, msg)
			bc.mk[id] = func() (protocol.Handler, error) {
				if bc.class == "ids-self-equals-other" {
					other = id
				}
				if i == 0 {
					rc, _ := cfg.(*doerner.ConfigReceiver)
					switch bc.class {
					case "config-nil":
						rc = nil
					case "config-zero-value":
						rc = &doerner.ConfigReceiver{}
					case "config-stripped-share":
						cc := *rc
						cc.SecretShare = nil
						rc = &cc
					case "config-stripped-setup":
						cc := *rc
						cc.Setup = nil
						rc = &cc
					}
					return protocol.NewTwoPartyHandler(doerner.SignReceiver(rc, id, other, mm, nil), sid, true)
				}
				sc, _ := cfg.(*doerner.ConfigSender)
				switch bc.class {
				case "config-nil":
					sc = nil
				case "config-zero-value":
					sc = &doerner.ConfigSender{}
				case "config-stripped-share":
					cc := *sc
					cc.SecretShare = nil
					sc = &cc
				case "config-stripped-setup":
					cc := *sc
					cc.Setup = nil
					sc = &cc
				}
				return protocol.NewTwoPartyHandler(doerner.SignSender(sc, id, other, mm, nil), sid, true)
			}
		}
	}
	return bc
}

// ---------------- CMP ----------------

func badCMP(c *fw.Ctx, presigOnly bool) *badCase {
	n := 2 + c.S.Draw(2, "n")
	t := c.S.Draw(n, "t")
	ids := scen.DrawIDs(c.S, n)
	sid := []byte(c.Label("sid"))
	scen.InstallPrimes(c)
	kind := c.S.Draw(6, "fn") // keygen refresh sign presign presign-full online
	if presigOnly {
		kind = 5
	}
	bc := &badCase{mk: map[party.ID]scen.Mk{}}
	if kind == 0 {
		bc.fn = "cmp.Keygen"
		classes := []string{"threshold", "ids-duplicate", "ids-without-self", "ids-empty-identifier", "ids-empty-list"}
		bc.class = classes[c.S.Draw(len(classes), "class")]
		th := t
		if bc.class == "threshold" {
			bt := badThresholds(n)
			th = bt[c.S.Draw(len(bt), "bad-threshold")]
			bc.class = fmt.Sprintf("threshold=%s", thName(th, n))
		}
		for _, id := range ids {
			id := id
			pids := ids
			if strings.HasPrefix(bc.class, "ids-") {
				pids = mutateIDs(c, ids, id, bc.class)
			}
			bc.mk[id] = func() (protocol.Handler, error) {
				return protocol.NewMultiHandler(cmp.Keygen(scen.Group, id, pids, th, nil), sid)
			}
		}
		return bc
	}
	m := agedMaterial(c, scen.DealCMP(c, ids, t, "prep"))
	stripped := func(cfg *cmp.Config, class string) *cmp.Config {
		switch class {
		case "config-nil":
			return nil
		case "config-zero-value":
			return &cmp.Config{}
		case "config-stripped-share":
			cc := *cfg
			cc.ECDSA = nil
			return &cc
		case "config-stripped-table":
			cc := *cfg
			cc.Public = nil
			return &cc
		case "config-stripped-paillier":
			cc := *cfg
			cc.Paillier = nil
			return &cc
		case "config-threshold-n":
			cc := *cfg
			cc.Threshold = len(cfg.Public)
			return &cc
		}
		return cfg
	}
	cfgClasses := []string{"config-nil", "config-zero-value", "config-stripped-share", "config-stripped-table", "config-stripped-paillier", "config-threshold-n"}
	if kind == 1 {
		bc.fn = "cmp.Refresh"
		bc.class = cfgClasses[c.S.Draw(len(cfgClasses), "class")]
		for _, id := range ids {
			cfg := m.Cfg[id].(*cmp.Config)
			bc.mk[id] = func() (protocol.Handler, error) {
				return protocol.NewMultiHandler(cmp.Refresh(stripped(cfg, bc.class), nil), sid)
			}
		}
		return bc
	}
	msg := scen.DrawMsg(c)
	signers := scen.DrawSubset(c.S, ids, t+1)
	sgClasses := []string{"signers-too-few", "signers-non-shareholder", "signers-duplicate", "signers-without-self", "signers-foreign-replaces-shareholder"}
	classes := append(append([]string{}, sgClasses...), cfgClasses...)
	if kind == 2 { // (presign-full with an empty message IS the offline presign, which is valid)
		classes = append(classes, msgClasses...)
	}
	badSigners := func(id party.ID, class string) []party.ID {
		sg := signers
		switch class {
		case "signers-too-few":
			var o []party.ID
			o = append(o, id)
			for _, x := range signers {
				if x != id && len(o) < t {
					o = append(o, x)
				}
			}
			sg = o
		case "signers-non-shareholder":
			sg = append(append([]party.ID{}, signers...), foreignID)
		case "signers-foreign-replaces-shareholder":
			sg = replaceOneWithForeign(ids, id)
		case "signers-duplicate":
			sg = append(append([]party.ID{}, signers...), signers[0])
		case "signers-without-self":
			sg = mutateIDs(c, signers, id, "ids-without-self")
			if len(sg) <= t {
				sg = append(sg, foreignID)
			}
		}
		return sg
	}
	if kind == 5 {
		bc.fn = "cmp.PresignOnline"
		classes = append(append([]string{"presignature-nil", "presignature-empty", "presignature-stripped-entry", "presignature-zero-share",
			"presignature-s-entry-under-foreign-key", "presignature-rbar-entry-under-foreign-key", "presignature-s-entry-missing", "presignature-identity-entry"}, cfgClasses[:2]...), msgClasses...)
		bc.class = classes[c.S.Draw(len(classes), "class")]
		vals := map[party.ID]interface{}{}
		if presigOnly {
			bc.class = classes[c.S.Draw(8, "presig-class")]
			rid, _ := types.NewRID(rand.Reader)
			R := sample.Scalar(rand.Reader, scen.Group).ActOnBase()
			rbar, sp := map[party.ID]curve.Point{}, map[party.ID]curve.Point{}
			for _, id := range signers {
				rbar[id] = sample.Scalar(rand.Reader, scen.Group).ActOnBase()
				sp[id] = sample.Scalar(rand.Reader, scen.Group).ActOnBase()
			}
			for _, id := range signers {
				vals[id] = &ecdsa.PreSignature{ID: rid, R: R, RBar: party.NewPointMap(rbar), S: party.NewPointMap(sp),
					KShare: sample.Scalar(rand.Reader, scen.Group), ChiShare: sample.Scalar(rand.Reader, scen.Group)}
			}
		} else {
			// a genuine presignature to strip
			ps := scen.NewSession(c, "prep-presign", m.Clone().PresignMk(signers, []byte(c.Label("sid", "pp"))), nil)
			ps.Net.Policy = sim.FIFO{}
			ps.Net.Run()
			var errs map[party.ID]error
			vals, errs = ps.Results()
			if len(errs) > 0 {
				scen.Fatalf("C20: prerequisite presign failed: %v", errs)
			}
		}
		for _, id := range signers {
			cfg := m.Cfg[id].(*cmp.Config)
			pre := vals[id].(*ecdsa.PreSignature)
			mm := badMsg(bc.class, msg)
			bc.mk[id] = func() (protocol.Handler, error) {
				p := pre
				switch bc.class {
				case "presignature-nil":
					p = nil
				case "presignature-empty":
					p = &ecdsa.PreSignature{}
				case "presignature-stripped-entry":
					cp := *pre
					pts := map[party.ID]interface{}{}
					_ = pts
					s2 := *pre.S
					s2.Points = nil
					cp.S = &s2
					p = &cp
				case "presignature-zero-share":
					cp := *pre
					cp.KShare = scen.Group.NewScalar()
					p = &cp
				case "presignature-s-entry-under-foreign-key", "presignature-rbar-entry-under-foreign-key", "presignature-s-entry-missing", "presignature-identity-entry":
					// the tables must be keyed by exactly the signers: one signer's entry is moved under a
					// stranger's identifier (same size, every value a valid point), dropped, or the identity
					cp := *pre
					victim := signers[len(signers)-1]
					if victim == id && len(signers) > 1 {
						victim = signers[0]
					}
					clone := func(pm *party.PointMap) map[party.ID]curve.Point {
						o := map[party.ID]curve.Point{}
						for k, v := range pm.Points {
							o[k] = v
						}
						return o
					}
					sp, rp := clone(pre.S), clone(pre.RBar)
					switch bc.class {
					case "presignature-s-entry-under-foreign-key":
						sp[foreignID] = sp[victim]
						delete(sp, victim)
					case "presignature-rbar-entry-under-foreign-key":
						rp[foreignID] = rp[victim]
						delete(rp, victim)
					case "presignature-s-entry-missing":
						delete(sp, victim)
					case "presignature-identity-entry":
						sp[victim] = scen.Group.NewPoint()
					}
					cp.S, cp.RBar = party.NewPointMap(sp), party.NewPointMap(rp)
					p = &cp
				}
				return protocol.NewMultiHandler(cmp.PresignOnline(stripped(cfg, bc.class), p, mm, nil), sid)
			}
		}
		return bc
	}
	bc.fn = []string{"", "", "cmp.Sign", "cmp.Presign", "cmp.PresignFull"}[kind]
	bc.class = classes[c.S.Draw(len(classes), "class")]
	if bc.class == "signers-too-few" && t == 0 {
		bc.class = "signers-non-shareholder"
	}
	for _, id := range signers {
		id := id
		cfg := m.Cfg[id].(*cmp.Config)
		sg := badSigners(id, bc.class)
		mm := badMsg(bc.class, msg)
		bc.mk[id] = func() (protocol.Handler, error) {
			cc := stripped(cfg, bc.class)
			switch kind {
			case 2:
				return protocol.NewMultiHandler(cmp.Sign(cc, sg, mm, nil), sid)
			case 3:
				return protocol.NewMultiHandler(cmp.Presign(cc, sg, nil), sid)
			default:
				return protocol.NewMultiHandler(cmppresign.StartPresign(cc, sg, mm, nil), sid)
			}
		}
	}
	return bc
}

// replaceOneWithForeign: the full shareholder list with one member other than self replaced by a
// stranger - as many distinct signers as shareholders, self included, yet not a subset of them.
func replaceOneWithForeign(ids []party.ID, self party.ID) []party.ID {
	out := append([]party.ID{}, ids...)
	for i, x := range out {
		if x != self {
			out[i] = foreignID
			break
		}
	}
	return out
}

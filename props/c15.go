package props

import (
	"bytes"
	"fmt"
	"math/big"
	"strings"

	"github.com/taurusgroup/multi-party-sig/pkg/ecdsa"
	"github.com/taurusgroup/multi-party-sig/pkg/party"
	"github.com/taurusgroup/multi-party-sig/pkg/protocol"
	"github.com/taurusgroup/multi-party-sig/protocols/cmp"
	"github.com/taurusgroup/multi-party-sig/verif/fw"
	"github.com/taurusgroup/multi-party-sig/verif/mut"
	"github.com/taurusgroup/multi-party-sig/verif/scen"
	"github.com/taurusgroup/multi-party-sig/verif/sim"
)

func init() {
	fw.Register(&fw.PropDef{
		ID: "C15", Level: "fault_enumeration", Engine: "histsim+disk",
		Cases: func(tier string) int {
			if tier == "thorough" {
				return 40000
			}
			return 3000
		},
		Run:  runC15,
		Rule: "catalogue = (stored type: cmp.Config, frost.Config, frost.TaprootConfig, doerner.ConfigSender/Receiver, ecdsa.PreSignature, ecdsa.Signature, protocol.Message) x (disk fault: none, lost write (previous epoch survives), torn write (prefix new / suffix old), short write (truncation), bit flip, byte overwrite, zero-fill, structure-aware single-field corruption of the encoding (drop, null, zero, boundary values, type confusion, duplicate entry, swapped siblings)). One case = one history: produce the object by simulated sessions, persist a drawn subset of parties with the documented encoder on the simulated disk, crash them, inject the fault, restore, then run the next session (sign / online sign / refresh) together with parties that did not crash. No fault: restore succeeds, the object is semantically equal and the next session satisfies C01. Fault: restore errors, or yields an object that keeps the validity rules (non-zero secrets, non-identity points, threshold in range, own entry present and matching the secret, right-size odd moduli) and with which the next session produces no wrong result; never a panic, never a silently empty object. Non-trivial = bytes were actually restored through the library codec. Distinct = (type, fault kind, operator/path class, restore outcome).",
		Assumptions: []string{
			"'documented encoders' = MarshalBinary/UnmarshalBinary where the type has them (cmp.Config, protocol.Message) and cbor with the library's Empty* constructors otherwise",
			"a corruption that yields another syntactically valid value (e.g. another curve point for a peer) cannot be detected by restore (no integrity tag); the oracle then only demands that no wrong result follows",
		},
		RealStub: map[string][]string{
			"real": {"codecs of all result types", "sessions following the restore"},
			"stub": {"disk (in-memory byte store with injected faults)", "network", "randomness", "CMP material from dealer", "prime search"},
		},
	})
}

// validityProblems applies exactly the validity rules the property lists to a restored config:
// zero (or absent) secrets, identity (or absent) points, wrong-size or even moduli, threshold out of
// range, missing parties / own entry / own identifier. It returns a problem class and a description.
func validityProblems(p scen.Proto, cfg interface{}, id party.ID, n int) (class, problem string) {
	defer func() {
		if r := recover(); r != nil {
			if f, ok := r.(scen.Fatal); ok {
				class, problem = "absent-field", "absent field: "+f.Msg
				return
			}
			class, problem = "uninspectable", fmt.Sprintf("inspecting the restored object panicked: %v", r)
		}
	}()
	m := &scen.Material{Proto: p, IDs: []party.ID{id}, Cfg: map[party.ID]interface{}{id: cfg}}
	sh := m.Share(id)
	if sh.Sign() == 0 {
		return "zero-secret", "zero secret share"
	}
	// (a damaged identifier that happens to name ANOTHER party of the table is undetectable when that
	// party's entry fits the secret - with t = 0 all shares are equal; what a decoder can and must
	// refuse is an absent identifier, or one without an entry: the latter is "own public share missing")
	if p != scen.Doerner && m.OwnID(id) == "" {
		return "own-identifier", "own identifier is empty"
	}
	id = m.OwnID(id)
	if p == scen.Doerner {
		id = m.IDs[0]
	}
	m = &scen.Material{Proto: p, IDs: []party.ID{id}, Cfg: map[party.ID]interface{}{id: cfg}}
	Y := m.PublicKey(id)
	if Y.Inf {
		return "identity-point", "group key is the identity / invalid"
	}
	if t := m.Threshold(id); t != -1 && (t < 0 || t > n-1) {
		return "threshold", fmt.Sprintf("threshold %d out of range for %d parties", t, n)
	}
	if ps := m.PubShares(id); ps != nil {
		// (a decoder cannot know that a *peer's* entry was removed from a self-consistent table;
		// what it can and must refuse is an empty table, a missing own entry, or a threshold that
		// the remaining entries cannot support)
		if len(ps) == 0 {
			return "missing-parties", "no public shares at all"
		}
		if t := m.Threshold(id); t != -1 && t > len(ps)-1 {
			return "threshold", fmt.Sprintf("threshold %d with only %d parties in the table", t, len(ps))
		}
		if _, has := ps[string(id)]; !has {
			return "missing-parties", "own public share missing"
		}
		for j, pt := range ps {
			if pt.Inf {
				return "identity-point", "identity public share for " + j
			}
		}
	}
	if c, ok := cfg.(*cmp.Config); ok {
		if c.ElGamal == nil || scen.Sc(c.ElGamal).Sign() == 0 {
			return "zero-secret", "zero ElGamal secret"
		}
		for j, pub := range c.Public {
			N := new(big.Int).SetBytes(pub.Paillier.N().Bytes())
			if N.Bit(0) == 0 {
				return "modulus", "even Paillier modulus for " + string(j)
			}
			if N.BitLen() < 2047 || N.BitLen() > 2048 {
				return "modulus", fmt.Sprintf("Paillier modulus of %d bits for %s", N.BitLen(), j)
			}
		}
	}
	return "", ""
}

// corrupt applies one disk fault to stored bytes; prev is the previous epoch's bytes (may be nil).
func corrupt(c *fw.Ctx, cur, prev []byte) (out []byte, kind, detail string) {
	kinds := []string{"bitflip", "overwrite", "short-write", "torn-write", "zero-fill", "lost-write", "field", "party-table"}
	kind = kinds[c.S.Draw(len(kinds), "disk-fault")]
	out = append([]byte{}, cur...)
	if kind == "party-table" {
		// damage aimed at the stored party table: an entry twice, an entry missing
		kind = "field"
		if tree, err := mut.Decode(cur); err == nil {
			// the stored threshold set to exactly the size of the table (one past the largest valid value)
			if c.S.Draw(3, "table-threshold") == 2 {
				size := -1
				for _, n := range mut.Nodes(tree) {
					cl := n.Path.Class()
					if (n.Shape == "array" && cl == ".Public") || (n.Shape == "map" && (cl == ".VerificationShares" || cl == ".VerificationShares.@blob")) {
						size = n.Len
					}
				}
				if _, ok := mut.Get(tree, mut.Path{"Threshold"}); ok && size > 0 {
					enc := mut.Encode(mut.Set(mut.Clone(tree), mut.Path{"Threshold"}, uint64(size)))
					if !bytes.Equal(enc, cur) {
						return enc, "field:threshold-equals-table-size", fmt.Sprintf("threshold=%d@.Threshold", size)
					}
				}
			}
			for _, n := range mut.Nodes(tree) {
				cl := n.Path.Class()
				var ops []string
				switch {
				case n.Shape == "array" && cl == ".Public":
					ops = []string{"array-dup-elem", "array-remove-last", "array-dup-last"}
				case n.Shape == "map" && (cl == ".VerificationShares" || cl == ".VerificationShares.@blob"):
					ops = []string{"dup-map-key", "zero-length"}
				default:
					continue
				}
				op := ops[c.S.Draw(len(ops), "table-op")]
				if !mut.Applicable(op, n) {
					break
				}
				if t2, res, ok := mut.Apply(c.S, mut.Clone(tree), n, op, nil); ok {
					if enc := mut.Encode(t2); !bytes.Equal(enc, cur) {
						return enc, "field:" + op, res.Op + "@" + res.Path.Class()
					}
				}
				break
			}
		}
	}
	switch kind {
	case "bitflip":
		pos := c.S.Draw(len(out)*8, "bit")
		out[pos/8] ^= 1 << uint(pos%8)
		detail = fmt.Sprintf("bit %d", pos)
	case "overwrite":
		pos := c.S.Draw(len(out), "pos")
		l := 1 + c.S.Draw(8, "len")
		for i := pos; i < pos+l && i < len(out); i++ {
			out[i] = byte(c.S.Draw(256, "byte"))
		}
		detail = fmt.Sprintf("%d bytes at %d", l, pos)
	case "short-write":
		k := c.S.Draw(len(out), "keep")
		out = out[:k]
		detail = fmt.Sprintf("kept %d of %d bytes", k, len(cur))
	case "torn-write":
		if prev == nil {
			prev = make([]byte, len(cur))
		}
		k := c.S.Draw(len(out), "tear")
		out = append(append([]byte{}, cur[:k]...), prev[min(k, len(prev)):]...)
		detail = fmt.Sprintf("new[:%d] + old[%d:]", k, k)
	case "zero-fill":
		pos := c.S.Draw(len(out), "pos")
		for i := pos; i < len(out); i++ {
			out[i] = 0
		}
		detail = fmt.Sprintf("zeros from %d", pos)
	case "lost-write":
		if prev == nil {
			out = nil
			detail = "no previous epoch: file absent"
		} else {
			out = append([]byte{}, prev...)
			detail = "previous epoch survives"
		}
	case "field":
		tree, err := mut.Decode(cur)
		if err != nil {
			return out, "bitflip", "fallback"
		}
		nodes := mut.Nodes(tree)
		ops := []string{"drop", "null", "zero-length", "zero-same-length", "boundary", "bitflip", "plus1", "swap-siblings", "type-uint", "type-negint", "type-bytes", "type-text", "array-dup-last", "array-remove-last", "negate-point", "truncate-1", "extend-1", "random-same-length", "array-dup-elem", "dup-map-key"}
		for try := 0; try < 10; try++ {
			op := ops[c.S.Draw(len(ops), "op")]
			var apps []mut.Node
			for _, n := range nodes {
				if mut.Applicable(op, n) {
					apps = append(apps, n)
				}
			}
			if len(apps) == 0 {
				continue
			}
			n := mut.PickNode(c.S, apps)
			t2, res, ok := mut.Apply(c.S, mut.Clone(tree), n, op, nil)
			if !ok {
				continue
			}
			enc := mut.Encode(t2)
			if bytes.Equal(enc, cur) {
				continue
			}
			return enc, "field:" + op, res.Op + "@" + res.Path.Class()
		}
		return out, "bitflip", "fallback"
	}
	return out, kind, detail
}

// dupPartyFault: the injected fault duplicated an entry of the stored party table.
func dupPartyFault(typeName, kind, detail string) bool {
	at := strings.LastIndex(detail, "@")
	if at < 0 {
		return false
	}
	class := detail[at+1:]
	switch kind {
	case "field:array-dup-last", "field:array-dup-elem":
		return typeName == "*config.Config" && class == ".Public"
	case "field:dup-map-key":
		return class == ".VerificationShares" || class == ".VerificationShares.@blob"
	}
	return false
}

func runC15(c *fw.Ctx) {
	if c.S.Draw(8, "c15-type") == 7 {
		runC15Message(c)
		return
	}
	// material + optional second artefact
	p := drawProto(c, cmpRate(c, 80))
	n, t := drawNT(c, p, 5)
	if p == scen.CMP && n > 3 {
		n = 3
		if t > 2 {
			t = 2
		}
	}
	ids := scen.DrawIDs(c.S, n)
	m := scen.PrepMaterial(c, p, ids, t, "prep")
	Y := m.PublicKey(ids[0])
	// an older epoch of the same file for torn/lost writes: the material before a refresh
	var prevBytes map[party.ID][]byte
	what := "config"
	if p == scen.CMP && c.S.Draw(3, "artefact") > 0 {
		what = []string{"", "presignature", "signature"}[c.S.Draw(2, "artefact2")+1]
	}
	signers := capSigners(p, scen.DrawSubset(c.S, ids, t+1), t)
	msg := scen.DrawMsg(c)
	objs := map[party.ID]interface{}{}
	switch what {
	case "config":
		for _, id := range ids {
			objs[id] = m.Cfg[id]
		}
		if p != scen.CMP && c.S.Draw(2, "with-prev-epoch") == 1 {
			prevBytes = map[party.ID][]byte{}
			for _, id := range ids {
				b, _ := scen.Persist(m.Cfg[id])
				prevBytes[id] = b
			}
			rs := scen.NewSession(c, "rf", m.Clone().RefreshMk([]byte(c.Label("sid", "rf"))), nil)
			rs.Net.Policy = sim.FIFO{}
			rs.Net.Run()
			vals, errs := rs.Results()
			if len(errs) > 0 {
				scen.Fatalf("C15: prerequisite refresh failed: %v", errs)
			}
			m = scen.Collect(p, ids, t, vals)
			for _, id := range ids {
				objs[id] = m.Cfg[id]
			}
		}
	case "presignature", "signature":
		ps := scen.NewSession(c, "ps", m.Clone().PresignMk(signers, []byte(c.Label("sid", "ps"))), nil)
		ps.Net.Policy = sim.FIFO{}
		ps.Net.Run()
		vals, errs := ps.Results()
		if len(errs) > 0 {
			scen.Fatalf("C15: prerequisite presign failed: %v", errs)
		}
		for id, v := range vals {
			objs[id] = v
		}
		if what == "signature" {
			pre := map[party.ID]*ecdsa.PreSignature{}
			for id, v := range vals {
				pre[id] = v.(*ecdsa.PreSignature)
			}
			on := scen.NewSession(c, "on", m.Clone().PresignOnlineMk(pre, msg, []byte(c.Label("sid", "on"))), nil)
			on.Net.Policy = sim.FIFO{}
			on.Net.Run()
			v2, e2 := on.Results()
			if len(e2) > 0 {
				scen.Fatalf("C15: prerequisite online sign failed: %v", e2)
			}
			objs = map[party.ID]interface{}{}
			for id, v := range v2 {
				objs[id] = v
			}
		}
	}
	// who crashes
	var holders []party.ID
	for _, id := range ids {
		if _, ok := objs[id]; ok {
			holders = append(holders, id)
		}
	}
	crashed := scen.DrawSubset(c.S, holders, 1)
	fault := c.S.Draw(3, "inject-fault") > 0 // 2/3 of the cases inject a fault
	victim := crashed[c.S.Draw(len(crashed), "victim")]
	typeName := fmt.Sprintf("%T", objs[victim])
	faultKind, faultDetail := "none", ""
	restored := map[party.ID]interface{}{}
	outcome := "ok"
	for _, id := range crashed {
		b, err := scen.Persist(objs[id])
		if err != nil {
			c.Violate("persist-failed/"+typeName, "party %q cannot persist its %s: %v", id, typeName, err)
			return
		}
		if fault && id == victim {
			var prev []byte
			if prevBytes != nil {
				prev = prevBytes[id]
			}
			b, faultKind, faultDetail = corrupt(c, b, prev)
			c.Fault("disk:"+faultKind, 1)
			if b == nil {
				outcome = "absent"
				continue
			}
		}
		v, err := scen.Restore(objs[id], b)
		if pe, isPanic := err.(*scen.PanicError); isPanic {
			c.Violate("panic-in-restore@"+sim.LibFrame(pe.Stack)+"/"+typeName, "restoring %s of party %q panicked (%s %s): %s\n%s", typeName, id, faultKind, faultDetail, pe.Value, pe.Stack)
			return
		}
		if err != nil {
			if !(fault && id == victim) {
				c.Violate("roundtrip-failed/"+typeName, "party %q: restoring its own freshly persisted %s failed: %v", id, typeName, err)
				return
			}
			outcome = "refused"
			continue
		}
		restored[id] = v
		// a stored party table that lists one party twice is invalid material whatever the copies
		// hold ("duplicate or missing parties"): it must be refused, not merged
		if fault && id == victim && dupPartyFault(typeName, faultKind, faultDetail) {
			c.Violate("duplicate-party-accepted/"+typeName, "restoring the %s of party %q succeeded although its stored party table lists a party twice (%s %s)", typeName, id, faultKind, faultDetail)
			return
		}
	}
	c.Res.NonTrivial = true
	c.Res.Desc = fmt.Sprintf("%s n=%d t=%d type=%s crashed=%d fault=%s(%s) outcome=%s", p, n, t, typeName, len(crashed), faultKind, faultDetail, outcome)
	// build the post-restart world
	after := map[party.ID]interface{}{}
	for id, v := range objs {
		after[id] = v
	}
	victimGone := false
	for _, id := range crashed {
		if v, ok := restored[id]; ok {
			after[id] = v
		} else {
			delete(after, id)
			if id == victim {
				victimGone = true
			}
		}
	}
	sigBase := typeName + "/" + faultKind
	// equality / validity of restored objects
	for _, id := range crashed {
		v, ok := restored[id]
		if !ok {
			continue
		}
		same := scen.ResultDigest(p, v) == scen.ResultDigest(p, objs[id])
		if !(fault && id == victim) {
			if !same {
				c.Violate("roundtrip-not-equivalent/"+typeName, "party %q: the restored %s is not equivalent to the persisted one\n  got  %s\n  want %s", id, typeName, trimS(scen.ResultDigest(p, v), 400), trimS(scen.ResultDigest(p, objs[id]), 400))
				return
			}
			continue
		}
		if same {
			outcome = "restored-equal"
			continue
		}
		outcome = "restored-different"
		if what == "config" {
			if class, prob := validityProblems(p, v, id, n); prob != "" {
				c.Violate("invalid-object-restored/"+typeName+"/"+class, "restore accepted corrupted bytes (%s %s) and returned a %s that breaks the validity rules: %s", faultKind, faultDetail, typeName, prob)
				return
			}
		}
	}
	c.Res.DistinctID = fmt.Sprintf("%s/%s/%s/%s", typeName, faultKind, faultDetail, outcome)
	if faultKind == "field" || len(faultKind) > 6 && faultKind[:6] == "field:" {
		c.Res.DistinctID = fmt.Sprintf("%s/%s/%s/%s", typeName, faultKind, faultDetail, outcome)
	} else {
		c.Res.DistinctID = fmt.Sprintf("%s/%s/%s", typeName, faultKind, outcome)
	}
	c.Probe("restore_outcome_"+outcome, 1)
	// restore-only faults: the (expensive) material is re-used for several more damaged files, each
	// judged by the restore-level rules only (no panic, no duplicate party, validity of what comes back)
	if what == "config" {
		for i := 0; i < 6; i++ {
			id := ids[c.S.Draw(len(ids), "extra-victim")]
			b, err := scen.Persist(objs[id])
			if err != nil {
				continue
			}
			var prev []byte
			if prevBytes != nil {
				prev = prevBytes[id]
			}
			b2, k2, d2 := corrupt(c, b, prev)
			if b2 == nil {
				continue
			}
			c.Fault("disk(restore-only):"+k2, 1)
			v, err := scen.Restore(objs[id], b2)
			if pe, isPanic := err.(*scen.PanicError); isPanic {
				c.Violate("panic-in-restore@"+sim.LibFrame(pe.Stack)+"/"+typeName, "restoring %s of party %q panicked (%s %s): %s\n%s", typeName, id, k2, d2, pe.Value, pe.Stack)
				return
			}
			if err != nil {
				c.Probe("restore_only_refused", 1)
				continue
			}
			if dupPartyFault(typeName, k2, d2) {
				c.Violate("duplicate-party-accepted/"+typeName, "restoring the %s of party %q succeeded although its stored party table lists a party twice (%s %s)", typeName, id, k2, d2)
				return
			}
			if scen.ResultDigest(p, v) != scen.ResultDigest(p, objs[id]) {
				if class, prob := validityProblems(p, v, id, n); prob != "" {
					c.Violate("invalid-object-restored/"+typeName+"/"+class, "restore accepted corrupted bytes (%s %s) and returned a %s that breaks the validity rules: %s", k2, d2, typeName, prob)
					return
				}
				c.Probe("restore_only_accepted_different", 1)
			} else {
				c.Probe("restore_only_accepted_equal", 1)
			}
		}
	}
	if victimGone && len(after) <= t {
		return
	}
	// next session with the restored objects
	judge := func(sess *scen.Session, parts []party.ID, wantComplete bool, where string) {
		for _, id := range parts {
			nd := sess.Nodes[id]
			if nd == nil {
				continue
			}
			if nd.Panic != "" {
				c.Violate("panic-after-restore@"+nd.PanicFn+"/"+sigBase, "%s: party %q panicked in the session following the restore (%s %s)\n%s", where, id, faultKind, faultDetail, nd.Panic)
			}
			if nd.Hang {
				c.Violate("hang-after-restore/"+sigBase, "%s: party %q hung in the session following the restore", where, id)
			}
		}
		vals, errs := sess.Results()
		for _, id := range parts {
			if v, ok := vals[id]; ok {
				if sess.Nodes[id].Dead {
					continue
				}
				if _, isSig := v.(*ecdsa.Signature); isSig || p != scen.CMP {
					enc, valid, how := scen.SigCheck(p, v, Y, msg)
					if !valid {
						c.Violate("wrong-result-after-restore/"+sigBase, "%s: party %q finished with a signature rejected by the reference verifier (%s): %s (restore fault %s %s)", where, id, how, enc, faultKind, faultDetail)
					}
				}
			} else if wantComplete {
				c.Violate("restored-material-does-not-work/"+typeName, "%s: party %q did not complete the session following a fault-free restore: %v", where, id, errs[id])
			}
		}
	}
	wantComplete := outcome == "ok" || outcome == "restored-equal"
	switch what {
	case "config":
		parts := signers
		if victimGone {
			var np []party.ID
			for _, id := range parts {
				if id != victim {
					np = append(np, id)
				}
			}
			parts = np
		}
		if len(parts) <= t {
			return
		}
		m2 := &scen.Material{Proto: p, IDs: ids, T: t, Cfg: after}
		mks := m2.SignMk(parts, msg, []byte(c.Label("sid", "next")), scen.SignPlain)
		ss := scen.NewSession(c, "next", mks, nil)
		ss.Run(c, true)
		judge(ss, parts, wantComplete && !victimGone, "sign after restore")
	case "presignature":
		if victimGone {
			return
		}
		pre := map[party.ID]*ecdsa.PreSignature{}
		for id, v := range after {
			pre[id] = v.(*ecdsa.PreSignature)
		}
		ss := scen.NewSession(c, "next", m.Clone().PresignOnlineMk(pre, msg, []byte(c.Label("sid", "next"))), nil)
		ss.Run(c, true)
		var parts []party.ID
		for id := range pre {
			parts = append(parts, id)
		}
		judge(ss, parts, wantComplete, "online sign after restore")
	case "signature":
		for id, v := range restored {
			enc, valid, how := scen.SigCheck(p, v, Y, msg)
			same := scen.ResultDigest(p, v) == scen.ResultDigest(p, objs[id])
			if same && !valid {
				c.Violate("roundtrip-signature-invalid/"+typeName, "restored signature of %q is rejected (%s): %s", id, how, enc)
			}
		}
	}
	c.Res.Sample = map[string]interface{}{"desc": c.Res.Desc}
}

// runC15Message: protocol.Message codec under disk/wire faults.
func runC15Message(c *fw.Ctx) {
	sc := scen.DrawScenario(c, scen.ScenarioOpts{CMPPerMille: 0, AllowXor: true, MaxN: 3})
	s := scen.NewSession(c, "run", sc.Mk(), nil)
	s.Net.Policy = sim.FIFO{}
	s.Net.Run()
	var msgs []*protocol.Message
	for _, id := range s.Order {
		msgs = append(msgs, s.Nodes[id].Sent...)
	}
	// the library also produces round-0 wire messages: abort notices. One party is stopped to obtain one.
	if h2, err := sc.Mk()[sc.Parts[0]](); err == nil && h2 != nil {
		tmp := &sim.Node{ID: sc.Parts[0], H: h2, Rng: sim.NewDRBG(c.Label("stop")), Honest: true}
		for _, am := range s.Net.Call(tmp, func() { h2.Stop() }) {
			if am.RoundNumber == 0 {
				msgs = append(msgs, am, am) // weight: as likely as a few ordinary messages
			}
		}
	}
	if len(msgs) == 0 {
		return
	}
	m := msgs[len(msgs)-1-c.S.Draw(len(msgs), "message")]
	b, err := m.MarshalBinary()
	if err != nil {
		c.Violate("persist-failed/protocol.Message", "MarshalBinary: %v", err)
		return
	}
	fault := c.S.Draw(3, "inject-fault") > 0
	kind, detail := "none", ""
	if fault {
		b, kind, detail = corrupt(c, b, nil)
		c.Fault("disk:"+kind, 1)
		if b == nil {
			b = []byte{}
		}
	}
	var out protocol.Message
	var uerr error
	func() {
		defer func() {
			if p := recover(); p != nil {
				c.Violate("panic-in-restore/protocol.Message", "Message.UnmarshalBinary panicked on %s %s: %v", kind, detail, p)
			}
		}()
		uerr = out.UnmarshalBinary(b)
	}()
	c.Res.NonTrivial = true
	c.Res.Desc = fmt.Sprintf("protocol.Message fault=%s(%s) err=%v", kind, detail, uerr)
	c.Res.DistinctID = fmt.Sprintf("protocol.Message/%s/%v", kind, uerr != nil)
	if !fault {
		if uerr != nil || out.Hash() == nil || !bytes.Equal(out.Hash(), m.Hash()) {
			c.Violate("roundtrip-not-equivalent/protocol.Message", "a message does not survive MarshalBinary/UnmarshalBinary (err=%v)", uerr)
		}
		return
	}
	if uerr == nil {
		empty := out.From == "" && out.Protocol == "" && out.SSID == nil && out.Data == nil && out.RoundNumber == 0
		if empty {
			c.Violate("silently-empty-object/protocol.Message/"+kind, "Message.UnmarshalBinary returned nil for undecodable bytes (%s %s) and left an empty message", kind, detail)
		}
	}
	c.Res.Sample = map[string]interface{}{"desc": c.Res.Desc}
}

package props

import "math/big"

var bigOne = big.NewInt(1)

package props

import (
	"fmt"
	"strings"

	"github.com/taurusgroup/multi-party-sig/verif/fw"
	"github.com/taurusgroup/multi-party-sig/verif/mut"
	"github.com/taurusgroup/multi-party-sig/verif/scen"
	"github.com/taurusgroup/multi-party-sig/verif/sim"
)

func init() {
	fw.Register(&fw.PropDef{
		ID: "C05", Level: "fault_enumeration", Engine: "netsim+byzantine",
		Cases: func(tier string) int {
			if tier == "thorough" {
				return sysCases() + sysCMPCases() + 80000
			}
			return sysCases() + 4000
		},
		Run:  runC05,
		Rule: "fault catalogue = (protocol x session kind x handler state reached by a real session prefix under a drawn schedule x message kind x field path x malformation {absent, null, empty, type confusion (uint, negative int, text, bytes, array, map, bool, float), 1 MiB byte string, deep nesting, length-prefix 0 / 2^32-16, truncated nested encoding, oversized array, duplicate map key, indefinite-length item, huge declared length, truncate/extend by one byte, boundary values, bit flip} plus header malformations and raw byte strings); monitors: panic on the calling goroutine, worker-process death, hang watchdog, and the end-state rule (outgoing channel closed <=> Result is final). Non-trivial = the malformed message was actually delivered to a live honest handler. Distinct = (protocol, kind, message kind, operator, path class).",
		Assumptions: []string{
			"memory exhaustion is observed as process death / allocation panics under the worker's address-space limit, not measured precisely",
			"the structural catalogue is enumerated cell by cell for small fixed scenarios (frost, taproot, doerner, xor in both tiers; cmp sign and presign in the thorough tier; long equally shaped arrays by three representatives); everything else (larger n, other schedules and handler states, value-level operators, cmp keygen/refresh) is sampled by seed; evidence reports syscell / syscatalogue counts",
		},
		RealStub: byzStub,
	})
}

// the systematic core: for small fixed scenarios of the cheap protocols, every cell of the structural
// catalogue (message of the deviating party x field path x structural operator) is enumerated by case
// number, independently of the seed. Cases [0, sysCases) belong to it.
var sysScenarios = []struct {
	p    scen.Proto
	k    scen.Kind
	n, t int
}{
	{scen.FROST, scen.KKeygen, 3, 1}, {scen.FROST, scen.KRefresh, 3, 1}, {scen.FROST, scen.KSign, 3, 1},
	{scen.FROSTTaproot, scen.KKeygen, 2, 1}, {scen.FROSTTaproot, scen.KSign, 2, 1},
	{scen.Doerner, scen.KKeygen, 2, 1}, {scen.Doerner, scen.KRefresh, 2, 1}, {scen.Doerner, scen.KSign, 2, 1},
	{scen.FROST, scen.KXor, 3, 2},
}

var sysOps = []string{"drop", "null", "zero-length", "type-uint", "type-text", "type-bytes", "type-array", "type-map", "boundary", "array-remove-last", "blob-truncate", "blob-prefix-zero", "truncate-1"}

const sysCellsPerScenario = 420

func sysCases() int { return len(sysScenarios) * sysCellsPerScenario }

// thorough tier only: the same enumeration for two-party cmp sessions (each world costs seconds)
var sysScenariosCMP = []struct {
	p    scen.Proto
	k    scen.Kind
	n, t int
}{
	{scen.CMP, scen.KSign, 2, 1}, {scen.CMP, scen.KPresignFull, 2, 1}, {scen.CMP, scen.KKeygen, 2, 1}, {scen.CMP, scen.KRefresh, 2, 1},
}

const sysCellsPerScenarioCMP = 760

func sysCMPCases() int { return len(sysScenariosCMP) * sysCellsPerScenarioCMP }

func fixedScenario(c *fw.Ctx, p scen.Proto, k scen.Kind, n, t int) *scen.Scenario {
	ids := scen.IDPool[:n]
	sc := &scen.Scenario{Kind: k, Proto: p, N: n, T: t, IDs: ids, Parts: ids, SID: []byte(c.Label("sid", "main"))}
	if k != scen.KXor && k != scen.KKeygen {
		sc.Mat = scen.PrepMaterial(c, p, ids, t, "prep")
		sc.Y, sc.HasY = sc.Mat.PublicKey(ids[0]), true
		sc.Msg = []byte("systematic-core-message-32-bytes")
	}
	sc.Name = sc.String()
	return sc
}

func runC05Systematic(c *fw.Ctx) {
	si := c.Case % len(sysScenarios)
	cell := c.Case / len(sysScenarios)
	sp := sysScenarios[si]
	if c.Case >= sysCases() {
		idx := c.Case - sysCases()
		si, cell = idx%len(sysScenariosCMP), idx/len(sysScenariosCMP)
		sp = sysScenariosCMP[si]
	}
	sc := fixedScenario(c, sp.p, sp.k, sp.n, sp.t)
	b := newByz(c, sc, sysOps, true, cell)
	if len(b.Targets) == 0 {
		return
	}
	wrapped := cell >= b.CellCount
	if wrapped {
		// the catalogue of this scenario has fewer cells than the slots reserved for it
		c.Res.Desc = fmt.Sprintf("systematic %s: slot %d beyond the %d cells of the catalogue", sc.Name, cell, b.CellCount)
		return
	}
	b.Start()
	b.Sess.Net.Policy = sim.FIFO{}
	b.Sess.Net.Run()
	c.Absorb(b.Sess.Net)
	delete(c.Res.Faults, "drop")
	c.Res.Desc = fmt.Sprintf("systematic %s cell %d/%d target=%s alteration=%v", sc.Name, cell%maxI(b.CellCount, 1), b.CellCount, b.TargetKey, b.Applied)
	c.Probe("systematic_cells_total:"+sc.Name, 0)
	if b.Applied == nil {
		return
	}
	c.Res.NonTrivial = !wrapped
	c.Res.DistinctID = fmt.Sprintf("sys/%s/%d", sc.Name, cell%b.CellCount)
	c.Res.States = append(c.Res.States, fmt.Sprintf("syscell:%s/%d", sc.Name, cell%b.CellCount), fmt.Sprintf("syscatalogue:%s=%d", sc.Name, b.CellCount))
	c.Fault("malformed_delivery(systematic):"+b.Applied.Op, 1)
	judgeC05(c, b)
}

func maxI(a, b int) int {
	if a > b {
		return a
	}
	return b
}

func runC05(c *fw.Ctx) {
	if c.Case < sysCases() || c.Tier == "thorough" && c.Case < sysCases()+sysCMPCases() {
		runC05Systematic(c)
		return
	}
	if c.S.Draw(8, "c05-mode") == 7 {
		runC05Raw(c)
		return
	}
	if c.S.Draw(16, "c05-dealer") == 15 {
		runDealer(c, func(b *Byz) { judgeC05(c, b) })
		return
	}
	b := NewByz(c, byzOpts(c, 8), mut.MalformOps, true)
	b.Headers = true
	if len(b.Targets) == 0 {
		return
	}
	b.Start()
	b.Run()
	c.Res.Desc = fmt.Sprintf("%s cheater=%q target=%s alteration=%v", b.Sc.Name, b.Cheater, b.TargetKey, b.Applied)
	if b.Applied == nil {
		return
	}
	c.Res.NonTrivial = true
	c.Res.DistinctID = b.where()
	c.Fault("malformed_delivery:"+b.Applied.Op, 1)
	judgeC05(c, b)
	c.Res.Sample = map[string]interface{}{"desc": c.Res.Desc}
}

// judgeC05 applies the crash / hang / pool-task / clean-end monitors to the honest parties of a world.
func judgeC05(c *fw.Ctx, b *Byz) {
	// crash / hang of any HONEST party
	for _, id := range b.Honest {
		nd := b.Sess.Nodes[id]
		if nd.Panic != "" {
			first := nd.Panic
			if len(first) > 300 {
				first = first[:300]
			}
			c.Violate("panic@"+nd.PanicFn, "honest party %q panicked while processing traffic from deviating party %q\n  alteration: %s in %s (%s)\n  %s", id, b.Cheater, b.Applied, b.AppliedAt, b.Sc.Name, nd.Panic)
		}
		if nd.PoolTaskPanics > 0 {
			_, rerr := nd.H.Result()
			c.Violate("panic-inside-pool-task/"+b.Sc.Proto.String()+"/"+b.Sc.Kind.String()+"/"+b.AppliedAt[:strings.Index(b.AppliedAt, "/to=")]+"/"+b.Applied.Path.Class(), "honest party %q: a panic was raised INSIDE a worker-pool task while processing traffic from %q (recovered here only because the simulated party runs with a nil pool; with a real pool it kills the process on a worker goroutine)\n  alteration: %s in %s (%s)\n  handler result: %v", id, b.Cheater, b.Applied, b.AppliedAt, b.Sc.Name, rerr)
		}
		if nd.Hang {
			c.Violate("hang/"+b.where(), "honest party %q: Accept did not return within the watchdog bound\n  alteration: %s in %s\n%s", id, b.Applied, b.AppliedAt, nd.HangStack)
		}
	}
	b.CheckClean()
}

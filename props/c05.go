package props

import (
	"fmt"
	"strings"

	"github.com/taurusgroup/multi-party-sig/verif/fw"
	"github.com/taurusgroup/multi-party-sig/verif/mut"
)

func init() {
	fw.Register(&fw.PropDef{
		ID: "C05", Level: "fault_enumeration", Engine: "netsim+byzantine",
		Cases: func(tier string) int {
			if tier == "thorough" {
				return 80000
			}
			return 4000
		},
		Run:  runC05,
		Rule: "fault catalogue = (protocol x session kind x handler state reached by a real session prefix under a drawn schedule x message kind x field path x malformation {absent, null, empty, type confusion (uint, negative int, text, bytes, array, map, bool, float), 1 MiB byte string, deep nesting, length-prefix 0 / 2^32-16, truncated nested encoding, oversized array, duplicate map key, indefinite-length item, huge declared length, truncate/extend by one byte, boundary values, bit flip} plus header malformations and raw byte strings); monitors: panic on the calling goroutine, worker-process death, hang watchdog, and the end-state rule (outgoing channel closed <=> Result is final). Non-trivial = the malformed message was actually delivered to a live honest handler. Distinct = (protocol, kind, message kind, operator, path class).",
		Assumptions: []string{
			"memory exhaustion is observed as process death / allocation panics under the worker's address-space limit, not measured precisely",
			"sampling by seed in both tiers (the systematic enumeration of DESIGN.md C05 is approximated by case count; coverage of (message kind x operator) cells is reported)",
		},
		RealStub: byzStub,
	})
}

func runC05(c *fw.Ctx) {
	if c.S.Draw(8, "c05-mode") == 7 {
		runC05Raw(c)
		return
	}
	b := NewByz(c, byzOpts(c, 8), mut.MalformOps, true)
	b.Headers = true
	if len(b.Targets) == 0 {
		return
	}
	b.Start()
	b.Run()
	c.Res.Desc = fmt.Sprintf("%s cheater=%q target=%s alteration=%v", b.Sc.Name, b.Cheater, b.TargetKey, b.Applied)
	if b.Applied == nil {
		return
	}
	c.Res.NonTrivial = true
	c.Res.DistinctID = b.where()
	c.Fault("malformed_delivery:"+b.Applied.Op, 1)
	// crash / hang of any HONEST party
	for _, id := range b.Honest {
		nd := b.Sess.Nodes[id]
		if nd.Panic != "" {
			first := nd.Panic
			if len(first) > 300 {
				first = first[:300]
			}
			c.Violate("panic@"+nd.PanicFn, "honest party %q panicked while processing traffic from deviating party %q\n  alteration: %s in %s (%s)\n  %s", id, b.Cheater, b.Applied, b.AppliedAt, b.Sc.Name, nd.Panic)
		}
		if nd.PoolTaskPanics > 0 {
			_, rerr := nd.H.Result()
			c.Violate("panic-inside-pool-task/"+b.Sc.Proto.String()+"/"+b.Sc.Kind.String()+"/"+b.AppliedAt[:strings.Index(b.AppliedAt, "/to=")]+"/"+b.Applied.Path.Class(), "honest party %q: a panic was raised INSIDE a worker-pool task while processing traffic from %q (recovered here only because the simulated party runs with a nil pool; with a real pool it kills the process on a worker goroutine)\n  alteration: %s in %s (%s)\n  handler result: %v", id, b.Cheater, b.Applied, b.AppliedAt, b.Sc.Name, rerr)
		}
		if nd.Hang {
			c.Violate("hang/"+b.where(), "honest party %q: Accept did not return within the watchdog bound\n  alteration: %s in %s\n%s", id, b.Applied, b.AppliedAt, nd.HangStack)
		}
	}
	b.CheckClean()
	c.Res.Sample = map[string]interface{}{"desc": c.Res.Desc}
}

package props

import (
	"bytes"
	"crypto/sha256"
	"errors"
	"fmt"
	"sort"
	"strings"

	"github.com/taurusgroup/multi-party-sig/pkg/ecdsa"
	"github.com/taurusgroup/multi-party-sig/pkg/party"
	"github.com/taurusgroup/multi-party-sig/pkg/protocol"
	"github.com/taurusgroup/multi-party-sig/verif/fw"
	"github.com/taurusgroup/multi-party-sig/verif/mut"
	"github.com/taurusgroup/multi-party-sig/verif/scen"
	"github.com/taurusgroup/multi-party-sig/verif/sim"
)

func init() {
	fw.Register(&fw.PropDef{
		ID: "C06", Level: "fault_enumeration", Engine: "netsim+byzantine",
		Cases: func(tier string) int {
			if tier == "thorough" {
				return 40000
			}
			return 2000
		},
		Run:  runC06,
		Rule: "fault catalogue = (multi-party protocol x session kind x equivocating party x broadcast round k followed by a further round x bipartition of the honest parties x payload source {forked twin of the cheater: bit-identical randomness until its round k-1 messages, independent afterwards, so both payloads are individually valid; single-field valid-looking substitution} x delivery schedule), n in 3..5. One case samples one cell. Oracle from the recorded deliveries: no two honest parties that were handed different round-k payloads by the same sender both finish with a value; all honest finishers hold byte-identical copies of every non-final round's broadcasts. Non-trivial = the two payloads really differ and both groups received theirs. Distinct = (protocol, kind, round, partition shape, source).",
		Assumptions: []string{
			"rounds whose broadcast payload is fully determined before the fork give identical twins and are counted as trivial",
			"the equivocating party does not additionally forge per-recipient view hashes (honest-to-honest comparison is what the mechanism relies on)",
		},
		RealStub: byzStub,
	})
}

func runC06(c *fw.Ctx) { runEquivocation(c, false) }

// runEquivocation builds one equivocation world. blameOnly (used by C04): instead of the split
// oracles, every honest party's error is examined - an equivocating participant must not get an
// honest one named as culprit.
func runEquivocation(c *fw.Ctx, blameOnly bool) {
	var sc *scen.Scenario
	if c.S.Draw(8, "toy") == 7 {
		// the handler's echo mechanism under round shapes no shipped protocol has (a reliable broadcast
		// followed by a point-to-point-only round, by a plain broadcast, ...)
		sc = scen.DrawToy(c, 3)
		sc.ToyNoDigest = true // no application-level detection: only the handler's echo stands between an equivocation and a split
	} else {
		sc = scen.DrawScenario(c, scen.ScenarioOpts{CMPPerMille: cmpRate(c, 25), MinN: 3, MaxN: 5, OnlyMulti: true, AllowXor: false})
	}
	parts := sc.Parts
	cheater := parts[c.S.Draw(len(parts), "cheater")]
	var honest []party.ID
	for _, id := range parts {
		if id != cheater {
			honest = append(honest, id)
		}
	}
	// probe run: learn which broadcast rounds the cheater has and how much randomness it had consumed
	// when it emitted each of them
	probe := scen.NewSession(c, "run", sc.Mk(), nil)
	probe.Net.Policy = sim.FIFO{}
	type emitPoint struct {
		round int
		count int64
	}
	var points []emitPoint
	cnode := probe.Nodes[cheater]
	probe.Net.PreEmit = func(from *sim.Node, msgs []*protocol.Message) {
		if from != cnode {
			return
		}
		seen := map[int]bool{}
		for _, m := range msgs {
			if m.Broadcast && m.RoundNumber > 0 && !seen[int(m.RoundNumber)] {
				seen[int(m.RoundNumber)] = true
				points = append(points, emitPoint{int(m.RoundNumber), cnode.Rng.Count})
			}
		}
	}
	probe.Net.Run()
	c.Res.Steps += probe.Net.Steps
	// "a broadcast round that is followed by a further round": judged from what the fault-free run really
	// emitted (the highest round number any party sent), not from the handler's declared window - the
	// offline cmp presign admits round 8 for its abort round but ends, unprotected, after round 7
	final := 0
	for _, id := range probe.Order {
		for _, m := range probe.Nodes[id].Sent {
			if int(m.RoundNumber) > final {
				final = int(m.RoundNumber)
			}
		}
	}
	// candidate rounds: broadcast rounds followed by a further round
	var cands []int
	for i, p := range points {
		if sc.Kind == scen.KToy && !sc.Shapes[p.round-2].Reliable {
			continue // a plain broadcast promises nothing
		}
		if p.round < final {
			cands = append(cands, i)
		}
	}
	if len(cands) == 0 {
		c.Res.Desc = sc.Name + " (no non-final broadcast round)"
		return
	}
	ci := cands[c.S.Draw(len(cands), "equivocation-round")]
	k := points[ci].round
	var forkAt int64 = 1
	if ci > 0 {
		forkAt = points[ci-1].count
		if forkAt == 0 {
			forkAt = 1
		}
	}
	source := "forked-twin"
	fieldSub := c.S.Draw(5, "equiv-source") == 4
	// resend: G2 is first handed the SAME round-k broadcast as G1 and then, while it may still be in
	// round k, the twin's different one ("sorry, resending"); the twin goes on talking to G2 and
	// quotes the view hash of the first version. A party must go on with what it hashed.
	resend := !fieldSub && c.S.Draw(3, "equiv-resend") == 2
	// partition of the honest parties
	g2 := map[party.ID]bool{}
	for {
		cnt := 0
		for _, id := range honest {
			if c.S.Draw(2, "in-g2") == 1 {
				g2[id] = true
				cnt++
			} else {
				delete(g2, id)
			}
		}
		if cnt > 0 && cnt < len(honest) {
			break
		}
		if c.S.Replay {
			// under replay-shrinking decisions may all be 0: fall back to a fixed split
			g2 = map[party.ID]bool{honest[len(honest)-1]: true}
			break
		}
	}
	// real run: the cheater is a split-brain node. A talks to G1, its forked twin A' (bit-identical
	// randomness until the round k-1 messages were produced, independent afterwards) talks to G2;
	// both hear all honest traffic.
	mk := sc.Mk()
	ex := scen.NewSession(c, "run", mk, func(id party.ID) bool { return id != cheater })
	A := ex.Nodes[cheater]
	var A2 *sim.Node
	applied := false
	note := ""
	if !fieldSub {
		label := c.Label("run", cheater)
		if ci == 0 {
			label = c.Label("equiv-twin", cheater)
		}
		mk2 := sc.Mk()
		A2, _ = ex.Net.Add(cheater, label, false, "run", mk2[cheater])
		if ci > 0 {
			A2.Rng.ForkAt = forkAt
			A2.Rng.ForkLabel = c.Label("equiv-twin", cheater)
		}
		ex.Net.Route = func(from *sim.Node, m *protocol.Message) []*sim.Node {
			var out []*sim.Node
			for _, t := range ex.Net.Nodes {
				if t == from || !m.IsFor(t.ID) {
					continue
				}
				// before the fork the two instances say the same thing, but not necessarily in the same
				// BYTES (each encodes Go maps in its own random iteration order): up to round k-1 everybody
				// hears instance A, the twin only listens
				pre := int(m.RoundNumber) < k
				if from == A && g2[t.ID] && !pre && !(resend && m.Broadcast && int(m.RoundNumber) == k) {
					continue
				}
				if from == A2 && (!g2[t.ID] || pre) {
					continue
				}
				out = append(out, t)
			}
			return out
		}
		var sentA = map[string][]byte{}
		bvA := map[int][]byte{}                   // view hashes quoted by A, per round
		firstSeen := map[party.ID]bool{}          // resend: G2 member already holds A's round-k broadcast
		heldY := map[party.ID]*protocol.Message{} // resend: the twin's version, waiting for that
		ex.Net.Mutate = func(from *sim.Node, m *protocol.Message, to *sim.Node) *protocol.Message {
			if m.RoundNumber == 0 {
				return nil // a real attacker does not announce itself
			}
			if from == A && m.BroadcastVerification != nil {
				bvA[int(m.RoundNumber)] = m.BroadcastVerification
			}
			if m.Broadcast && int(m.RoundNumber) == k {
				if from == A {
					sentA[mkey(m)] = m.Data
				} else if d, ok := sentA[mkey(m)]; ok && msgKeyData(d) != msgKeyData(m.Data) {
					applied = true
				}
				if resend && from == A2 && !firstSeen[to.ID] {
					heldY[to.ID] = m // released by AfterDeliver once the first version has arrived
					return nil
				}
			}
			return m
		}
		if resend {
			source = "forked-twin-resend"
			ex.Net.AfterDeliver = func(e *sim.Env, to *sim.Node) {
				if e.From == cheater && e.Bcast && e.Round == k && g2[to.ID] && !firstSeen[to.ID] {
					firstSeen[to.ID] = true
					if y := heldY[to.ID]; y != nil {
						delete(heldY, to.ID)
						ex.Net.Enqueue(A2, y, to, "tamper")
						c.Probe("resend_second_version_enqueued", 1)
					}
				}
			}
		}
		{
			ex.Net.BeforeDeliver = func(e *sim.Env, to *sim.Node) bool {
				// the twin's own view hash of round k-1 covers ITS encoding of its round k-1 broadcast, the
				// group heard A's: in round k it quotes A's (identical content). In resend mode it goes on
				// quoting the view hash that belongs to the first version.
				if e.From == cheater && g2[to.ID] && (e.Round == k || resend && e.Round > k) {
					m, err := e.DecodeE()
					if err != nil {
						return true
					}
					changed := false
					if bv, ok := bvA[e.Round]; ok && m.BroadcastVerification != nil && !bytes.Equal(m.BroadcastVerification, bv) {
						m.BroadcastVerification = bv
						changed = true
						c.Probe("viewhash_of_instance_A_quoted", 1)
					}
					// a round-k payload that says the same as A's (fully determined before the fork) is sent
					// in A's bytes: no equivocation, whatever the two instances' map orders were
					if e.Round == k && e.Bcast {
						if d, ok := sentA[mkey(m)]; ok && !bytes.Equal(d, m.Data) && msgKeyData(d) == msgKeyData(m.Data) {
							m.Data = d
							changed = true
						}
					}
					if changed {
						if b, err := m.MarshalBinary(); err == nil {
							e.Bytes = b
						}
					}
				}
				return true
			}
		}
	} else {
		source = "field-substitution"
		var alt *protocol.Message
		ex.Net.Mutate = func(from *sim.Node, m *protocol.Message, to *sim.Node) *protocol.Message {
			if m.RoundNumber == 0 {
				return nil
			}
			if !(m.Broadcast && int(m.RoundNumber) == k) {
				return m
			}
			if alt == nil {
				alt = m
				tree, err := mut.Decode(m.Data)
				if err == nil {
					nodes := mut.Nodes(tree)
					var bank []mut.BankEntry
					for _, id := range probe.Order {
						for _, tm := range probe.Nodes[id].Sent {
							if e, ok := bankEntry("probe", tm); ok {
								bank = append(bank, e)
							}
						}
					}
					for try := 0; try < 8 && alt == m; try++ {
						op := []string{"copy-from-bank", "random-same-length", "plus1", "negate-point"}[c.S.Draw(4, "op")]
						var apps []mut.Node
						for _, n := range nodes {
							if mut.Applicable(op, n) {
								apps = append(apps, n)
							}
						}
						if len(apps) == 0 {
							continue
						}
						n := mut.PickNode(c.S, apps)
						t2, res, ok := mut.Apply(c.S, mut.Clone(tree), n, op, bank)
						if ok {
							mm := *m
							mm.Data = mut.Encode(t2)
							alt = &mm
							note = res.String()
						}
					}
				}
			}
			if g2[to.ID] {
				if !bytes.Equal(alt.Data, m.Data) {
					applied = true
				}
				return alt
			}
			return m
		}
	}
	ex.Run(c, true)
	shape := fmt.Sprintf("%d|%d", len(honest)-len(g2), len(g2))
	c.Res.Desc = fmt.Sprintf("%s cheater=%q round=%d partition=%s source=%s %s policy=%s", sc.Name, cheater, k, shape, source, note, ex.Net.Policy.Name())
	c.Res.DistinctID = fmt.Sprintf("%s/%s/r%d/%s/%s", sc.Proto, sc.Kind, k, shape, source)
	if !applied {
		c.Probe("twins_identical_trivial", 1)
		return
	}
	c.Res.NonTrivial = true
	c.Fault("equivocation:"+source, 1)
	if blameOnly {
		isHonest := map[party.ID]bool{}
		for _, id := range honest {
			isHonest[id] = true
		}
		for _, id := range honest {
			nd := ex.Nodes[id]
			if nd.Dead || nd.H == nil {
				continue
			}
			_, err := nd.H.Result()
			var pe protocol.Error
			if err == nil || !errors.As(err, &pe) {
				var pp *protocol.Error
				if err == nil || !errors.As(err, &pp) || pp == nil {
					continue
				}
				pe = *pp
			}
			c.Probe("honest_errors_examined", 1)
			if pe.Err != nil && strings.HasPrefix(pe.Err.Error(), "aborted by other party") {
				continue
			}
			for _, cu := range pe.Culprits {
				if isHonest[cu] {
					c.Violate(fmt.Sprintf("honest-party-blamed-under-equivocation/%s/%s/r%d/%s", sc.Proto, sc.Kind, k, source), "honest party %q ended with error %q naming honest party %q; the only deviation is %q sending two versions of its round-%d broadcast (%s)", id, trimS(pe.Err.Error(), 160), cu, cheater, k, c.Res.Desc)
				}
			}
		}
		c.Res.Sample = map[string]interface{}{"desc": c.Res.Desc}
		return
	}
	// ---- oracle over the recorded deliveries ----
	type view struct{ data map[string][]byte }
	fin := []party.ID{}
	for _, id := range honest {
		nd := ex.Nodes[id]
		if nd.Dead || nd.H == nil {
			continue
		}
		if v, err := nd.H.Result(); err == nil && v != nil {
			fin = append(fin, id)
		}
	}
	sort.Slice(fin, func(i, j int) bool { return fin[i] < fin[j] })
	// what each finisher was handed per (sender, broadcast round < final)
	got := map[party.ID]map[string][]byte{}
	for _, id := range fin {
		got[id] = map[string][]byte{}
		for _, e := range ex.Nodes[id].Recv {
			if e.Bcast && e.Round > 0 && e.Round < final {
				key := fmt.Sprintf("%s/r%d", e.From, e.Round)
				if _, dup := got[id][key]; !dup { // first delivery wins, as in the handler
					got[id][key] = e.Decode().Data
				}
			}
		}
	}
	var a, b party.ID
	for _, id := range fin {
		if g2[id] {
			b = id
		} else {
			a = id
		}
	}
	// (in resend mode G2 was handed the same first version as G1: only the outcome comparison applies)
	if a != "" && b != "" && !resend {
		c.Violate(fmt.Sprintf("split/%s/%s/r%d/%s", sc.Proto, sc.Kind, k, source), "honest parties %q and %q received different round-%d broadcasts from %q and BOTH completed with a value (%s)", a, b, k, cheater, c.Res.Desc)
	}
	for i := 1; i < len(fin); i++ {
		for key, d0 := range got[fin[0]] {
			if d1, ok := got[fin[i]][key]; ok && !bytes.Equal(d0, d1) {
				c.Violate(fmt.Sprintf("views-differ/%s/%s/r%d/%s", sc.Proto, sc.Kind, k, source), "honest finishers %q and %q hold different copies of broadcast %s", fin[0], fin[i], key)
			}
		}
	}
	// whatever was delivered in whichever order: honest finishers of one session hold one public outcome
	for i := 1; i < len(fin); i++ {
		v0, _ := ex.Nodes[fin[0]].H.Result()
		v1, _ := ex.Nodes[fin[i]].H.Result()
		if p0, p1 := publicOutcome(sc.Proto, v0), publicOutcome(sc.Proto, v1); p0 != p1 {
			c.Violate(fmt.Sprintf("split-results/%s/%s/r%d/%s", sc.Proto, sc.Kind, k, source), "honest parties %q and %q both completed the session in which %q equivocated in round %d and hold different public outcomes\n  %s\n  %s", fin[0], fin[i], cheater, k, trimS(p0, 300), trimS(p1, 300))
			break
		}
	}
	c.Probe(fmt.Sprintf("finishers_%d", len(fin)), 1)
	c.Res.Sample = map[string]interface{}{"desc": c.Res.Desc, "honest_finishers": len(fin)}
}

// publicOutcome is the part of a session result that all honest finishers must share.
func publicOutcome(p scen.Proto, v interface{}) string {
	if _, ok := scen.ConfigDigest(p, v); ok {
		m := &scen.Material{Proto: p, IDs: []party.ID{"x"}, Cfg: map[party.ID]interface{}{"x": v}}
		out := fmt.Sprintf("Y=%x ck=%x t=%d", m.PublicKey("x").Compress(), m.ChainKey("x"), m.Threshold("x"))
		ps := m.PubShares("x")
		var ids []string
		for id := range ps {
			ids = append(ids, id)
		}
		sort.Strings(ids)
		for _, id := range ids {
			out += fmt.Sprintf(" %s=%x", id, ps[id].Compress())
		}
		return out + " " + m.AuxTable("x")
	}
	switch r := v.(type) {
	case *ecdsa.PreSignature:
		rb, _ := r.R.MarshalBinary()
		return fmt.Sprintf("presig id=%x R=%x", []byte(r.ID), rb)
	}
	return fmt.Sprintf("%T %s", v, scen.ResultDigest(p, v))
}

// msgKeyData digests a payload independently of the order in which its maps were encoded.
func msgKeyData(data []byte) string {
	out := data
	if t, err := mut.Decode(data); err == nil {
		func() {
			defer func() { _ = recover() }()
			out = mut.Encode(t)
		}()
	}
	h := sha256.Sum256(out)
	return fmt.Sprintf("%x", h[:12])
}

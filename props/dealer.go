package props

import (
	"fmt"

	"github.com/taurusgroup/multi-party-sig/internal/round"
	"github.com/taurusgroup/multi-party-sig/pkg/math/polynomial"
	"github.com/taurusgroup/multi-party-sig/pkg/party"
	"github.com/taurusgroup/multi-party-sig/pkg/protocol"
	"github.com/taurusgroup/multi-party-sig/protocols/cmp"
	"github.com/taurusgroup/multi-party-sig/protocols/frost"
	"github.com/taurusgroup/multi-party-sig/verif/fw"
	"github.com/taurusgroup/multi-party-sig/verif/mut"
	"github.com/taurusgroup/multi-party-sig/verif/scen"
	"github.com/taurusgroup/multi-party-sig/verif/sim"
)

// runDealer: a COHERENT deviating dealer. Single-field alterations can never be self-consistent over
// several rounds (a shortened polynomial no longer matches the shares sent later), so this deviator is a
// real handler whose first round is perturbed before it runs: it deals a polynomial of degree t-1 or t+1
// (with matching shares, proofs and commitments, because the honest code computes them from it).
func runDealer(c *fw.Ctx, judge func(b *Byz)) {
	protos := []scen.Proto{scen.FROST, scen.FROSTTaproot}
	if cmpEnabled && c.S.Bool(cmpRate(c, 150), 1000, "dealer-cmp") {
		protos = []scen.Proto{scen.CMP}
	}
	p := protos[c.S.Draw(len(protos), "proto")]
	n := 2 + c.S.Draw(3, "n")
	if p == scen.CMP && n > 3 {
		n = 3
	}
	t := 1 + c.S.Draw(n-1, "t")
	delta := []int{-1, +1}[c.S.Draw(2, "degree-delta")]
	kind := scen.KKeygen
	if c.S.Draw(2, "refresh") == 1 {
		kind = scen.KRefresh
	}
	ids := scen.DrawIDs(c.S, n)
	sid := []byte(c.Label("sid", "main"))
	sc := &scen.Scenario{Kind: kind, Proto: p, N: n, T: t, IDs: ids, Parts: ids, SID: sid}
	if p == scen.CMP {
		scen.InstallPrimes(c)
	}
	if kind == scen.KRefresh {
		sc.Mat = scen.PrepMaterial(c, p, ids, t, "prep")
		sc.Y, sc.HasY = sc.Mat.PublicKey(ids[0]), true
	}
	sc.Name = sc.String()
	cheater := ids[c.S.Draw(n, "cheater")]
	mk := sc.Mk()
	// the cheater's start function, wrapped: the first round is perturbed before the handler runs it
	var start protocol.StartFunc
	mat := sc.Mat
	if mat != nil {
		mat = mat.Clone()
	}
	switch {
	case p == scen.CMP && kind == scen.KKeygen:
		start = cmp.Keygen(scen.Group, cheater, ids, t, nil)
	case p == scen.CMP:
		start = cmp.Refresh(mat.Cfg[cheater].(*cmp.Config), nil)
	case p == scen.FROST && kind == scen.KKeygen:
		start = frost.Keygen(scen.Group, cheater, ids, t)
	case p == scen.FROST:
		start = frost.Refresh(mat.Cfg[cheater].(*frost.Config), ids)
	case kind == scen.KKeygen:
		start = frost.KeygenTaproot(cheater, ids, t)
	default:
		start = frost.RefreshTaproot(mat.Cfg[cheater].(*frost.TaprootConfig), ids)
	}
	perturbed := false
	wrapped := func(s []byte) (round.Session, error) {
		r, err := start(s)
		if err != nil || r == nil {
			return r, err
		}
		if p == scen.CMP {
			f := scen.UnexportedField(r, "VSSSecret")
			old := f.Interface().(*polynomial.Polynomial)
			f.Set(reflectValue(polynomial.NewPolynomial(scen.Group, t+delta, old.Constant())))
		} else {
			scen.UnexportedField(r, "threshold").SetInt(int64(t + delta))
		}
		perturbed = true
		return r, nil
	}
	mk[cheater] = func() (protocol.Handler, error) {
		h, err := protocol.NewMultiHandler(wrapped, sid)
		if err == nil && h != nil && p != scen.CMP {
			// from round 2 on the deviator follows the protocol with the agreed threshold again
			scen.UnexportedField(currentRoundOf(h).Interface(), "threshold").SetInt(int64(t))
		}
		return h, err
	}
	sess := scen.NewSessionL(c, "run", mk, func(id party.ID) bool { return id != cheater }, nil)
	sess.Net.Mutate = func(from *sim.Node, m *protocol.Message, to *sim.Node) *protocol.Message {
		if m.RoundNumber == 0 {
			return nil
		}
		return m
	}
	sess.Run(c, true)
	b := &Byz{C: c, Sc: sc, Sess: sess, Cheater: cheater}
	for _, id := range ids {
		if id != cheater {
			b.Honest = append(b.Honest, id)
		}
	}
	b.Applied = &mut.Result{Op: fmt.Sprintf("coherent-dealer-degree%+d", delta)}
	b.AppliedAt = "r2/btrue/to="
	c.Res.Desc = fmt.Sprintf("%s cheater=%q deals a polynomial of degree t%+d (t=%d) coherently, policy=%s", sc.Name, cheater, delta, t, sess.Net.Policy.Name())
	c.Res.DistinctID = fmt.Sprintf("dealer/%s/%s/%+d/n%d", p, kind, delta, n)
	if !perturbed {
		return
	}
	c.Res.NonTrivial = true
	c.Fault(fmt.Sprintf("coherent_wrong_degree_dealer:%+d", delta), 1)
	judge(b)
	c.Res.Sample = map[string]interface{}{"desc": c.Res.Desc}
}

package props

import (
	"fmt"
	"os"
	"runtime"
	"runtime/debug"
	"strings"
	"sync"
	"sync/atomic"
	"time"

	"github.com/anishathalye/porcupine"
	"github.com/taurusgroup/multi-party-sig/pkg/party"
	"github.com/taurusgroup/multi-party-sig/pkg/protocol"
	"github.com/taurusgroup/multi-party-sig/verif/fw"
	"github.com/taurusgroup/multi-party-sig/verif/mut"
	"github.com/taurusgroup/multi-party-sig/verif/scen"
	"github.com/taurusgroup/multi-party-sig/verif/sim"
)

func init() {
	fw.Register(&fw.PropDef{
		ID: "C17", Level: "exploration", Engine: "apisim",
		Cases: func(tier string) int {
			if tier == "thorough" {
				return 30000
			}
			return 2000
		},
		Run: runC17,
		// the cases run in a second build of the driver with the race detector enabled
		External: &fw.External{Bin: "/verif/.bin/vcheck-race", Env: "VERIF_SPEC", ExtraEnv: []string{"GORACE=halt_on_error=0 log_path=/verif/.bin/race/r"}},
		Rule:     "two kinds of cases on live XOR / FROST / FROST-Taproot / Doerner (and occasionally CMP) sessions. (a) call sequences: a seeded sequence of API calls (Stop once or twice, a peer's abort notice, Result, Listen, CanAccept, Accept of genuine / duplicate / late messages) is interposed at a drawn point of a simulated session and after its end; oracle = sequential lifecycle model (running -> finished(value) | failed(error); Stop ends a running session with an error and is harmless afterwards; the outgoing channel is closed exactly when the session has ended; Result is final afterwards; no panic). (b) concurrent use: K in 2..6 client goroutines issue seeded operation lists against one handler in waves released by a barrier while a drainer consumes Listen(); the binary is built with the race detector; invoke/return events are stamped from one atomic counter and the history (<= 40 operations) is checked with porcupine against the lifecycle model; race-detector reports, panics, and waves that do not return are violations. Non-trivial = the handler was driven through at least one state change. Distinct = (protocol, kind, mode, decision trace).",
		Assumptions: []string{
			"in (b) the operation sets are decided by the seed but the interleaving of real threads is not; a failing case is re-executed up to 5 times on replay",
			"the Go race detector is happens-before based: an unsynchronised pair of accesses is reported whenever both occur in a wave, whatever their real-time order",
			"porcupine timeouts (none expected at this history length) are inconclusive, never reported",
		},
		RealStub: map[string][]string{
			"real": {"protocol.MultiHandler / TwoPartyHandler API under real goroutines", "round code", "race detector"},
			"stub": {"peers (their genuine messages are recorded from a reference run with the same randomness and replayed)", "network", "randomness source"},
		},
	})
}

// ---------------- lifecycle model ----------------

type lcState struct {
	accepted uint64 // bitmask of distinct genuine messages accepted
	phase    int    // 0 running, 1 finished, 2 failed
}

type lcIn struct {
	op  string // accept, abort, stop, result, canaccept, listen
	idx int
	all uint64 // mask of all genuine messages (needed to know when the session completes)
}

func lcStep(st lcState, in lcIn, out string) (bool, lcState) {
	switch in.op {
	case "accept":
		if st.phase == 0 && in.idx >= 0 {
			st.accepted |= 1 << uint(in.idx)
			if st.accepted&in.all == in.all {
				st.phase = 1
			}
		}
		return true, st
	case "abort":
		if st.phase == 0 {
			st.phase = 2
		}
		return true, st
	case "stop":
		if st.phase == 0 {
			st.phase = 2
		}
		return true, st
	case "result":
		want := [...]string{"notfinished", "value", "error"}[st.phase]
		return out == want, st
	}
	return true, st
}

var lcModel = porcupine.Model{
	Init: func() interface{} { return lcState{} },
	Step: func(state, input, output interface{}) (bool, interface{}) {
		ok, ns := lcStep(state.(lcState), input.(lcIn), output.(string))
		return ok, ns
	},
	Equal: func(a, b interface{}) bool { return a.(lcState) == b.(lcState) },
	DescribeOperation: func(input, output interface{}) string {
		in := input.(lcIn)
		return fmt.Sprintf("%s(%d)->%s", in.op, in.idx, output.(string))
	},
}

func classify(v interface{}, err error) string {
	switch {
	case err == nil && v != nil:
		return "value"
	case sim.IsNotFinished(err):
		return "notfinished"
	case err != nil:
		return "error"
	}
	return "nil-nil"
}

// ---------------- race log ----------------

var raceLogOff int64

// newRaceReports returns race-detector reports written since the last call (GORACE log_path=...).
func newRaceReports() []string {
	lp := ""
	for _, kv := range strings.Fields(os.Getenv("GORACE")) {
		if strings.HasPrefix(kv, "log_path=") {
			lp = strings.TrimPrefix(kv, "log_path=")
		}
	}
	if lp == "" {
		return nil
	}
	name := fmt.Sprintf("%s.%d", lp, os.Getpid())
	b, err := os.ReadFile(name)
	if err != nil || int64(len(b)) <= raceLogOff {
		return nil
	}
	txt := string(b[raceLogOff:])
	raceLogOff = int64(len(b))
	var out []string
	for _, blk := range strings.Split(txt, "==================") {
		if strings.Contains(blk, "WARNING: DATA RACE") {
			out = append(out, blk)
		}
	}
	return out
}

// raceSig names a race by the two innermost library functions involved.
func raceSig(report string) string {
	var fns []string
	lines := strings.Split(report, "\n")
	for i, l := range lines {
		t := strings.TrimSpace(l)
		if (strings.HasPrefix(t, "Write at") || strings.HasPrefix(t, "Read at") || strings.HasPrefix(t, "Previous write at") || strings.HasPrefix(t, "Previous read at")) && i+1 < len(lines) {
			for j := i + 1; j < len(lines) && j < i+12; j++ {
				f := strings.TrimSpace(lines[j])
				if strings.HasPrefix(f, "github.com/taurusgroup/multi-party-sig/") && !strings.Contains(f, "/verif/") {
					if k := strings.LastIndex(f, "("); k > 0 {
						f = f[:k]
					}
					fns = append(fns, strings.TrimPrefix(f, "github.com/taurusgroup/multi-party-sig/"))
					break
				}
			}
		}
	}
	if len(fns) > 2 {
		fns = fns[:2]
	}
	if len(fns) == 2 && fns[0] > fns[1] {
		fns[0], fns[1] = fns[1], fns[0]
	}
	return strings.Join(fns, " <-> ")
}

// ---------------- shared: record the genuine inbound messages of one party ----------------

type recorded struct {
	sc      *scen.Scenario
	target  party.ID
	inbound []*protocol.Message // genuine messages addressed to target, in causal (FIFO) order
	abort   *protocol.Message   // an abort notice from a peer
}

func recordSession(c *fw.Ctx, o scen.ScenarioOpts) *recorded {
	var sc *scen.Scenario
	if c.S.Draw(6, "toy") == 5 {
		sc = scen.DrawToy(c, 2) // round shapes no shipped protocol has
	} else {
		sc = scen.DrawScenario(c, o)
	}
	ref := scen.NewSession(c, "run", sc.Mk(), nil)
	ref.Net.Policy = sim.FIFO{}
	ref.Net.Run()
	c.Res.Steps += ref.Net.Steps
	target := sc.Parts[c.S.Draw(len(sc.Parts), "target")]
	r := &recorded{sc: sc, target: target}
	for _, e := range ref.Nodes[target].Recv {
		r.inbound = append(r.inbound, e.Decode())
	}
	// a peer's abort notice: same headers as a genuine message, round 0
	for _, id := range sc.Parts {
		if id != target && len(ref.Nodes[id].Sent) > 0 {
			g := ref.Nodes[id].Sent[0]
			r.abort = &protocol.Message{SSID: g.SSID, From: id, Protocol: g.Protocol, Data: []byte("peer aborted")}
			break
		}
	}
	return r
}

// fresh builds a new handler for the target with the same randomness as in the reference run.
func (r *recorded) fresh(c *fw.Ctx) (protocol.Handler, *sim.DRBG, error) {
	rng := sim.NewDRBG(c.Label("run", r.target))
	old := c.R.Use(rng)
	h, err := r.sc.Mk()[r.target]()
	c.R.Use(old)
	return h, rng, err
}

func runC17(c *fw.Ctx) {
	if c.S.Draw(8, "c17-shared") == 7 {
		runC17SharedShare(c)
		return
	}
	if c.S.Draw(2, "c17-mode") == 0 {
		runC17Sequence(c)
		return
	}
	runC17Concurrent(c)
}

// ---------------- (c) several sessions of one party that share one key share ----------------
//
// One party signs in several sessions at once, every session with its own handler on its own
// goroutine, all started from the SAME config object. The handlers share the points and scalars of
// that config: whatever a session does with them (hashing, marshalling) must not write to them.
func runC17SharedShare(c *fw.Ctx) {
	p := []scen.Proto{scen.FROST, scen.FROSTTaproot, scen.Doerner}[c.S.Draw(3, "proto")]
	n, t := 2, 1
	if p != scen.Doerner {
		n = 2 + c.S.Draw(2, "n")
		t = 1 + c.S.Draw(n-1, "t")
	}
	ids := scen.IDPool[:n]
	m := scen.PrepMaterial(c, p, ids, t, "prep")
	target := ids[c.S.Draw(n, "target")]
	S := 2 + c.S.Draw(4, "sessions")
	type sess struct {
		tag     string
		mk      scen.Mk
		inbound []*protocol.Message
	}
	var ss []*sess
	for i := 0; i < S; i++ {
		tag := fmt.Sprintf("s%d", i)
		msg := scen.DrawMsg(c)
		sid := []byte(c.Label("sid", tag))
		// reference run on a deep copy: records what the target's peers send in this session
		ref := scen.NewSession(c, tag, m.Clone().SignMk(ids[:t+1+c.S.Draw(n-t, "signers")], msg, sid, scen.SignPlain), nil)
		_ = ref
		signers := ref.Order
		isSigner := false
		for _, id := range signers {
			if id == target {
				isSigner = true
			}
		}
		if !isSigner {
			continue
		}
		ref.Net.Policy = sim.FIFO{}
		ref.Net.Run()
		c.Res.Steps += ref.Net.Steps
		x := &sess{tag: tag}
		for _, e := range ref.Nodes[target].Recv {
			x.inbound = append(x.inbound, e.Decode())
		}
		// the live handler is built from the SHARED material (no copy)
		x.mk = m.SignMk(signers, msg, sid, scen.SignPlain)[target]
		ss = append(ss, x)
	}
	if len(ss) < 2 {
		return
	}
	c.Res.Desc = fmt.Sprintf("shared-share %s n=%d t=%d target=%q sessions=%d", p, n, t, target, len(ss))
	c.Res.DistinctID = c.Res.Desc + "|" + c.S.TraceHash()
	c.Res.NonTrivial = true
	c.Fault("concurrent_sessions_on_one_key_share", len(ss))
	// handlers are built one after the other, each with the randomness of its reference run
	hs := make([]protocol.Handler, len(ss))
	for i, x := range ss {
		rng := sim.NewDRBG(c.Label(x.tag, target))
		old := c.R.Use(rng)
		h, err := x.mk()
		c.R.Use(old)
		if err != nil || h == nil {
			c.Violate("shared-share/start-refused/"+p.String(), "session %s of %q could not start: %v", x.tag, target, err)
			return
		}
		hs[i] = h
	}
	c.R.Use(sim.NewDRBG(c.Label("shared", target)))
	defer c.R.Use(nil)
	_ = newRaceReports()
	var wg sync.WaitGroup
	var mu sync.Mutex
	var panics []string
	start := make(chan struct{})
	for i := range ss {
		wg.Add(1)
		go func(h protocol.Handler, in []*protocol.Message) {
			defer wg.Done()
			defer func() {
				if pv := recover(); pv != nil {
					mu.Lock()
					panics = append(panics, fmt.Sprintf("%v\n%s", pv, trim5(string(debug.Stack()))))
					mu.Unlock()
				}
			}()
			ch := h.Listen()
			<-start
			for _, msg := range in {
				mm := *msg
				h.Accept(&mm)
				for drained := false; !drained; {
					select {
					case _, ok := <-ch:
						if !ok {
							drained = true
						}
					default:
						drained = true
					}
				}
			}
		}(hs[i], ss[i].inbound)
	}
	close(start)
	done := make(chan struct{})
	go func() { wg.Wait(); close(done) }()
	select {
	case <-done:
	case <-time.After(90 * time.Second):
		c.Violate("shared-share/hang/"+p.String(), "concurrent sessions of one party did not return within 90 s (%s)", c.Res.Desc)
		return
	}
	for _, pn := range panics {
		first := pn
		if i := strings.Index(first, "\n"); i > 0 {
			first = first[:i]
		}
		c.Violate("shared-share/panic/"+p.String()+"/"+first, "a session panicked while others of the same party ran concurrently: %s\n  %s", pn, c.Res.Desc)
	}
	for _, r := range newRaceReports() {
		c.Violate("shared-share/data-race/"+raceSig(r), "the race detector reported a data race between concurrent sessions that share one key share (%s)\n%s", c.Res.Desc, trimS(r, 3000))
	}
	if len(c.Res.Violations) > 0 {
		return
	}
	for i, h := range hs {
		if p == scen.Doerner {
			break // its later rounds draw randomness, which concurrent sessions take from one stream here: the recorded replies need not fit
		}
		v, err := h.Result()
		if got := classify(v, err); got != "value" {
			c.Violate("shared-share/session-did-not-complete/"+p.String(), "session %s of %q, run concurrently with %d others on the same key share, ended %q (%v) although it was handed exactly the messages of its fault-free run", ss[i].tag, target, len(hs)-1, got, err)
			return
		}
	}
	c.Res.Sample = map[string]interface{}{"desc": c.Res.Desc}
}

// ---------------- (a) call sequences ----------------

func runC17Sequence(c *fw.Ctx) {
	rec := recordSession(c, scen.ScenarioOpts{CMPPerMille: 0, AllowXor: true, MaxN: 4}) // no CMP: seconds per call under the race detector; the handler code is the same
	h, rng, err := rec.fresh(c)
	if err != nil || h == nil {
		return
	}
	c.R.Use(rng)
	defer c.R.Use(nil)
	ch := h.Listen()
	closed := false
	closes := 0
	drain := func() {
		for {
			select {
			case _, ok := <-ch:
				if !ok {
					if !closed {
						closes++
					}
					closed = true
					return
				}
			default:
				return
			}
		}
	}
	var all uint64
	for i := range rec.inbound {
		all |= 1 << uint(i)
	}
	st := lcState{}
	garbageAt := map[int]bool{}
	doomed := false
	seenValue := false
	var trace []string
	sigBase := fmt.Sprintf("%s/%s", rec.sc.Proto, rec.sc.Kind)
	if rec.sc.Kind == scen.KXor {
		sigBase = "xor"
	}
	fail := func(sig, f string, a ...interface{}) {
		c.Violate("lifecycle/"+sig+"/"+handlerKind(h), f+"\n  call sequence: %s", append(a, strings.Join(trace, " "))...)
	}
	_ = sigBase
	call := func(name string, f func()) (panicked bool) {
		done := make(chan struct{})
		go func() {
			defer close(done)
			defer func() {
				if p := recover(); p != nil {
					panicked = true
					fail("panic-in-"+name, "%s panicked: %v\n%s", name, p, trim5(string(debug.Stack())))
				}
			}()
			f()
		}()
		t := time.NewTimer(60 * time.Second)
		defer t.Stop()
		for {
			select {
			case <-done:
				drain()
				return
			case _, ok := <-ch:
				if !ok {
					if !closed {
						closes++
					}
					closed = true
					ch = nil
				}
			case <-t.C:
				fail("hang-in-"+name, "%s did not return while the outgoing channel was being drained", name)
				panicked = true
				return
			}
		}
	}
	check := func(where string) bool {
		var v interface{}
		var e error
		if call("Result", func() { v, e = h.Result() }) {
			return false
		}
		got := classify(v, e)
		if doomed && !seenValue && st.phase != 2 && got == "error" {
			st.phase = 2 // the queued undecodable message was judged on entering its round
		}
		if got == "value" {
			seenValue = true
		}
		want := [...]string{"notfinished", "value", "error"}[st.phase]
		if got != want {
			fail("result-"+want+"-expected-got-"+got, "%s: Result() is %q but the session must be %q", where, got, want)
			return false
		}
		ended := st.phase != 0
		if ended != closed {
			fail(fmt.Sprintf("channel-closed-%v-but-ended-%v", closed, ended), "%s: session ended=%v but outgoing channel closed=%v", where, ended, closed)
			return false
		}
		return true
	}
	// delivery order of the genuine messages: in order, or (half of the cases) a drawn permutation -
	// later-round messages then arrive early and are judged from the handler's queues on round entry
	if c.S.Draw(2, "permute") == 1 {
		for i := len(rec.inbound) - 1; i > 0; i-- {
			j := c.S.Draw(i+1, "perm")
			rec.inbound[i], rec.inbound[j] = rec.inbound[j], rec.inbound[i]
		}
		c.Fault("permuted_delivery_order", 1)
	}
	// the interposed sequence
	nGenuine := len(rec.inbound)
	cut := c.S.Draw(nGenuine+1, "interpose-at")
	ops := 1 + c.S.Draw(6, "ops")
	next := 0
	deliver := func(i int) bool {
		trace = append(trace, fmt.Sprintf("Accept(m%d)", i))
		m := *rec.inbound[i]
		if call("Accept", func() { h.Accept(&m) }) {
			return false
		}
		_, st = lcStep(st, lcIn{op: "accept", idx: i, all: all}, "")
		return check(fmt.Sprintf("after Accept(m%d)", i))
	}
	for next < cut {
		if !deliver(next) {
			return
		}
		next++
	}
	// a peer's last-round message that passes verification but makes the round END IN AN
	// IDENTIFIABLE-ABORT ROUND when it is finalized (toy protocol: wrong view digest); delivered in
	// place of the next genuine message. false: that message carries no view digest.
	echoNext := false // the next tampered delivery flips the echo hash in the header instead
	deliverTampered := func() bool {
		tm := tamperViewDigest(rec.inbound[next])
		what := "a wrong view digest"
		if echoNext {
			echoNext = false
			tm = nil
			if bv := rec.inbound[next].BroadcastVerification; len(bv) > 0 {
				mm := *rec.inbound[next]
				mm.BroadcastVerification = append([]byte{}, bv...)
				mm.BroadcastVerification[0] ^= 1
				tm, what = &mm, "a wrong echo hash in its header"
			}
		}
		if tm == nil {
			return false
		}
		trace = append(trace, fmt.Sprintf("Accept(m%d with %s)", next, what))
		if call("Accept", func() { h.Accept(tm) }) {
			return true
		}
		if what == "a wrong view digest" {
			c.Fault("message_that_fails_at_finalize", 1)
		}
		var v interface{}
		var e error
		if call("Result", func() { v, e = h.Result() }) {
			return true
		}
		switch classify(v, e) {
		case "error":
			st.phase = 2
		case "value":
			st.phase = 1
		}
		garbageAt[next] = true
		doomed = true
		next++
		return true
	}
	for k := 0; k < ops; k++ {
		switch c.S.Draw(10, "op") {
		case 9:
			// a genuine message whose echo hash (an unauthenticated header field quoting the sender's view
			// of the previous round) differs from the local one: the session must end with an error, once
			if next >= nGenuine {
				continue
			}
			echoNext = true
			if !deliverTampered() {
				continue
			}
			c.Fault("message_with_wrong_echo_hash", 1)
		case 8:
			if next >= nGenuine || !deliverTampered() {
				continue
			}
		case 7:
			// a peer's message that cannot be decoded (delivered in place of the next genuine one, possibly
			// early): the session must end with an error, once
			if next >= nGenuine {
				continue
			}
			trace = append(trace, fmt.Sprintf("Accept(garbage in place of m%d)", next))
			m := *rec.inbound[next]
			m.Data = []byte{0xff, 0x00, 0x13, 0x37}
			if call("Accept", func() { h.Accept(&m) }) {
				return
			}
			c.Fault("undecodable_message", 1)
			// it ends the session when it is judged: at once if it belongs to the current round, else on
			// entering its round; the model follows the handler's own verdict here and only demands
			// consistency afterwards (never value AND error, channel closed iff ended, no panic)
			var v interface{}
			var e error
			if call("Result", func() { v, e = h.Result() }) {
				return
			}
			switch classify(v, e) {
			case "error":
				st.phase = 2
			case "value":
				st.phase = 1
			}
			garbageAt[next] = true
			doomed = true
			next++
		case 0:
			trace = append(trace, "Stop")
			if call("Stop", func() { h.Stop() }) {
				return
			}
			_, st = lcStep(st, lcIn{op: "stop"}, "")
			c.Fault("stop_called", 1)
		case 1:
			if rec.abort == nil {
				continue
			}
			trace = append(trace, "Accept(abort-notice)")
			m := *rec.abort
			if call("Accept", func() { h.Accept(&m) }) {
				return
			}
			_, st = lcStep(st, lcIn{op: "abort"}, "")
			c.Fault("peer_abort_notice", 1)
		case 2:
			trace = append(trace, "Result")
		case 3:
			trace = append(trace, "Listen")
			if call("Listen", func() { _ = h.Listen() }) {
				return
			}
		case 4:
			if nGenuine == 0 {
				continue
			}
			i := c.S.Draw(nGenuine, "msg")
			trace = append(trace, fmt.Sprintf("CanAccept(m%d)", i))
			m := *rec.inbound[i]
			if call("CanAccept", func() { _ = h.CanAccept(&m) }) {
				return
			}
		case 5:
			if next == 0 {
				continue
			}
			i := c.S.Draw(next, "dup")
			trace = append(trace, fmt.Sprintf("Accept(dup m%d)", i))
			m := *rec.inbound[i]
			if call("Accept", func() { h.Accept(&m) }) {
				return
			}
			c.Fault("duplicate_accept", 1)
			if garbageAt[i] && st.phase == 0 {
				// m_i itself was never delivered (garbage went in its place): if the handler had dropped
				// the garbage, this "duplicate" is the first genuine copy and the session may go on. As
				// for the garbage itself the model follows the handler's verdict and demands consistency.
				var v interface{}
				var e error
				if call("Result", func() { v, e = h.Result() }) {
					return
				}
				switch classify(v, e) {
				case "error":
					st.phase = 2
				case "value":
					st.phase = 1
				default:
					if _, st2 := lcStep(st, lcIn{op: "accept", idx: i, all: all}, ""); st2.phase == 0 {
						st = st2
						garbageAt[i] = false
					}
				}
			}
		default:
			if next < nGenuine {
				if !deliver(next) {
					return
				}
				next++
				continue
			}
		}
		if !check("after " + trace[len(trace)-1]) {
			return
		}
	}
	// the rest of the genuine traffic (late messages if the session has ended meanwhile)
	for next < nGenuine {
		if st.phase != 0 {
			c.Fault("late_message_after_end", 1)
		}
		if st.phase == 0 && len(rec.inbound[next].BroadcastVerification) > 0 && c.S.Draw(6, "tamper-echo") == 5 {
			// (often the LAST awaited message of its round: the handler finalizes right after judging it)
			echoNext = true
			deliverTampered()
			c.Fault("message_with_wrong_echo_hash", 1)
			if len(c.Res.Violations) > 0 || !check("after "+trace[len(trace)-1]) {
				return
			}
			continue
		}
		if st.phase == 0 && tamperViewDigest(rec.inbound[next]) != nil && c.S.Draw(3, "tamper-digest") == 2 {
			deliverTampered()
			if len(c.Res.Violations) > 0 || !check("after "+trace[len(trace)-1]) {
				return
			}
			continue
		}
		if !deliver(next) {
			return
		}
		next++
	}
	// after the end: everything again
	for k := 0; k < 3; k++ {
		switch c.S.Draw(3, "after-op") {
		case 0:
			trace = append(trace, "Stop")
			if call("Stop", func() { h.Stop() }) {
				return
			}
			_, st = lcStep(st, lcIn{op: "stop"}, "")
			c.Fault("stop_called", 1)
		case 1:
			if nGenuine > 0 {
				i := c.S.Draw(nGenuine, "late")
				trace = append(trace, fmt.Sprintf("Accept(late m%d)", i))
				m := *rec.inbound[i]
				if call("Accept", func() { h.Accept(&m) }) {
					return
				}
				c.Fault("late_message_after_end", 1)
			}
		default:
			trace = append(trace, "Result")
		}
		if !check("after the end, " + trace[len(trace)-1]) {
			return
		}
	}
	if closes > 1 {
		fail("closed-more-than-once", "outgoing channel closed %d times", closes)
	}
	c.Res.NonTrivial = len(trace) > 0
	c.Res.Desc = fmt.Sprintf("sequence %s target=%q %s", rec.sc.Name, rec.target, handlerKind(h))
	c.Res.DistinctID = c.Res.Desc + "|" + strings.Join(trace, " ")
	c.Res.States = append(c.Res.States, fmt.Sprintf("seq:%s:phase%d", handlerKind(h), st.phase))
	c.Res.Sample = map[string]interface{}{"desc": c.Res.Desc, "calls": strings.Join(trace, " ")}
}

func handlerKind(h protocol.Handler) string {
	if _, ok := h.(*protocol.TwoPartyHandler); ok {
		return "TwoPartyHandler"
	}
	return "MultiHandler"
}

func trim5(s string) string {
	l := strings.Split(s, "\n")
	var keep []string
	for _, x := range l {
		if strings.Contains(x, "multi-party-sig/pkg") || strings.Contains(x, "panic") || strings.Contains(x, "multi-party-sig/protocols") {
			keep = append(keep, x)
		}
	}
	if len(keep) > 12 {
		keep = keep[:12]
	}
	return strings.Join(keep, "\n")
}

// ---------------- (b) concurrent use ----------------

type cop struct {
	op  string
	idx int
}

func runC17Concurrent(c *fw.Ctx) {
	rec := recordSession(c, scen.ScenarioOpts{CMPPerMille: 0, AllowXor: true, MaxN: 4})
	n := len(rec.inbound)
	if n == 0 || n > 60 {
		return
	}
	K := 2 + c.S.Draw(5, "clients")
	waves := 1 + c.S.Draw(3, "waves")
	// operation lists: every genuine message is accepted at least once overall (so the session can end)
	lists := make([][][]cop, waves)
	total := 0
	var all uint64
	for i := 0; i < n; i++ {
		all |= 1 << uint(i)
	}
	withStop := c.S.Draw(4, "with-stop") == 3
	withAbort := !withStop && rec.abort != nil && c.S.Draw(6, "with-abort") == 5
	pos := 0
	for w := 0; w < waves; w++ {
		lists[w] = make([][]cop, K)
		// share of the genuine messages for this wave
		share := n / waves
		if w == waves-1 {
			share = n - pos
		}
		for j := 0; j < share; j++ {
			k := c.S.Draw(K, "client")
			lists[w][k] = append(lists[w][k], cop{"accept", pos})
			pos++
			total++
		}
		for k := 0; k < K && total < 38; k++ {
			extra := c.S.Draw(3, "extra")
			for e := 0; e < extra && total < 38; e++ {
				switch c.S.Draw(5, "cop") {
				case 0:
					lists[w][k] = append(lists[w][k], cop{"result", 0})
				case 1:
					lists[w][k] = append(lists[w][k], cop{"canaccept", c.S.Draw(n, "msg")})
				case 2:
					lists[w][k] = append(lists[w][k], cop{"accept", c.S.Draw(n, "msg")})
				case 3:
					lists[w][k] = append(lists[w][k], cop{"listen", 0})
				default:
					lists[w][k] = append(lists[w][k], cop{"result", 0})
				}
				total++
			}
		}
		if withStop && w == waves/2 {
			k := c.S.Draw(K, "stopper")
			at := c.S.Draw(len(lists[w][k])+1, "stop-at")
			l := append([]cop{}, lists[w][k][:at]...)
			l = append(l, cop{"stop", 0})
			lists[w][k] = append(l, lists[w][k][at:]...)
			total++
		}
		if withAbort && w == waves/2 {
			k := c.S.Draw(K, "aborter")
			lists[w][k] = append(lists[w][k], cop{"abort", 0})
			total++
		}
	}
	attempts := 1
	if c.S.Replay {
		attempts = 5
	}
	c.Res.Desc = fmt.Sprintf("concurrent %s target=%q K=%d waves=%d ops=%d stop=%v abort=%v", rec.sc.Name, rec.target, K, waves, total, withStop, withAbort)
	c.Res.DistinctID = c.Res.Desc + "|" + c.S.TraceHash()
	for a := 0; a < attempts && len(c.Res.Violations) == 0; a++ {
		concurrentAttempt(c, rec, lists, all)
	}
	c.Res.NonTrivial = true
	c.Res.Sample = map[string]interface{}{"desc": c.Res.Desc, "wave0": fmt.Sprint(lists[0])}
}

func concurrentAttempt(c *fw.Ctx, rec *recorded, lists [][][]cop, all uint64) {
	h, rng, err := rec.fresh(c)
	if err != nil || h == nil {
		return
	}
	c.R.Use(rng)
	defer c.R.Use(nil)
	_ = newRaceReports() // discard anything earlier
	var clock int64
	var mu sync.Mutex
	var hist []porcupine.Operation
	var panics []string
	closedSeen := int32(0)
	stopDrain := make(chan struct{})
	drainDone := make(chan struct{})
	ch := h.Listen() // obtained before any client can hold the handler's lock, as an application does
	go func() {
		defer close(drainDone)
		for {
			select {
			case _, ok := <-ch:
				if !ok {
					atomic.StoreInt32(&closedSeen, 1)
					return
				}
			case <-stopDrain:
				return
			}
		}
	}()
	hk := handlerKind(h)
	for w := range lists {
		var wg sync.WaitGroup
		start := make(chan struct{})
		for k := range lists[w] {
			ops := lists[w][k]
			if len(ops) == 0 {
				continue
			}
			wg.Add(1)
			go func(k int, ops []cop) {
				defer wg.Done()
				defer func() {
					if p := recover(); p != nil {
						mu.Lock()
						panics = append(panics, fmt.Sprintf("%v\n%s", p, trim5(string(debug.Stack()))))
						mu.Unlock()
					}
				}()
				<-start
				for _, o := range ops {
					in := lcIn{op: o.op, idx: o.idx, all: all}
					out := ""
					call := atomic.AddInt64(&clock, 1)
					switch o.op {
					case "accept":
						m := *rec.inbound[o.idx]
						h.Accept(&m)
					case "abort":
						m := *rec.abort
						h.Accept(&m)
					case "stop":
						h.Stop()
					case "result":
						v, e := h.Result()
						out = classify(v, e)
					case "canaccept":
						m := *rec.inbound[o.idx]
						_ = h.CanAccept(&m)
					case "listen":
						_ = h.Listen()
					}
					ret := atomic.AddInt64(&clock, 1)
					mu.Lock()
					hist = append(hist, porcupine.Operation{ClientId: k, Input: in, Call: call, Output: out, Return: ret})
					mu.Unlock()
				}
			}(k, ops)
		}
		close(start)
		done := make(chan struct{})
		go func() { wg.Wait(); close(done) }()
		select {
		case <-done:
		case <-time.After(90 * time.Second):
			buf := make([]byte, 1<<20)
			nb := runtime.Stack(buf, true)
			var lib []string
			for _, g := range strings.Split(string(buf[:nb]), "\n\n") {
				if strings.Contains(g, "multi-party-sig/pkg/protocol") {
					lib = append(lib, trimS(g, 1500))
				}
			}
			c.Violate("concurrent/hang/"+hk, "a wave of concurrent API calls did not return within 90 s while the outgoing channel was being drained (%s)\n%s", c.Res.Desc, strings.Join(lib, "\n\n"))
			return
		}
	}
	// final Result stamped after everything
	v, e := h.Result()
	call := atomic.AddInt64(&clock, 1)
	hist = append(hist, porcupine.Operation{ClientId: 99, Input: lcIn{op: "result", all: all}, Call: call, Output: classify(v, e), Return: call + 1})
	time.Sleep(2 * time.Millisecond)
	close(stopDrain)
	<-drainDone
	for _, p := range panics {
		first := p
		if i := strings.Index(first, "\n"); i > 0 {
			first = first[:i]
		}
		c.Violate("concurrent/panic/"+hk+"/"+first, "a concurrent API call panicked: %s\n  %s", p, c.Res.Desc)
	}
	for _, r := range newRaceReports() {
		c.Violate("concurrent/data-race/"+raceSig(r), "the race detector reported a data race during concurrent API use (%s)\n%s", c.Res.Desc, trimS(r, 3000))
	}
	if len(c.Res.Violations) > 0 {
		return
	}
	res := porcupine.CheckOperationsTimeout(lcModel, hist, 20*time.Second)
	switch res {
	case porcupine.Illegal:
		var d []string
		for _, o := range hist {
			d = append(d, fmt.Sprintf("[c%d %d-%d %s(%d)->%s]", o.ClientId, o.Call, o.Return, o.Input.(lcIn).op, o.Input.(lcIn).idx, o.Output))
		}
		lastOut := classify(v, e)
		c.Violate("concurrent/not-linearizable/"+hk+"/final-"+lastOut, "the recorded history is not linearizable against the lifecycle model (%s)\n  %s", c.Res.Desc, strings.Join(d, " "))
	case porcupine.Unknown:
		c.Probe("porcupine_timeout_inconclusive", 1)
	default:
		c.Probe("histories_linearizable", 1)
	}
	ended := !sim.IsNotFinished(e)
	if ended != (atomic.LoadInt32(&closedSeen) == 1) {
		// the drainer may not have observed the close yet: poll once more
		if ended && scen.ChanClosed(h) {
			return
		}
		c.Violate(fmt.Sprintf("concurrent/channel-closed-%v-but-ended-%v/%s", atomic.LoadInt32(&closedSeen) == 1, ended, hk), "session ended=%v but outgoing channel closed=%v (%s)", ended, atomic.LoadInt32(&closedSeen) == 1, c.Res.Desc)
	}
}

// tamperViewDigest returns a copy of a toy-protocol message whose view digest (field T) is altered, or
// nil if the message carries none.
func tamperViewDigest(m *protocol.Message) *protocol.Message {
	t, err := mut.Decode(m.Data)
	if err != nil {
		return nil
	}
	v, ok := mut.Get(t, mut.Path{"T"})
	b, isB := v.([]byte)
	if !ok || !isB || len(b) != 32 {
		return nil
	}
	nb := append([]byte{}, b...)
	nb[0] ^= 1
	mm := *m
	mm.Data = mut.Encode(mut.Set(mut.Clone(t), mut.Path{"T"}, nb))
	return &mm
}

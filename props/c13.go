package props

import (
	"bytes"
	"crypto/sha256"
	"fmt"
	"math/big"
	"runtime/debug"

	"github.com/cronokirby/saferith"
	"github.com/fxamacker/cbor/v2"
	"github.com/taurusgroup/multi-party-sig/internal/ot"
	"github.com/taurusgroup/multi-party-sig/pkg/hash"
	"github.com/taurusgroup/multi-party-sig/pkg/math/curve"
	"github.com/taurusgroup/multi-party-sig/verif/fw"
	"github.com/taurusgroup/multi-party-sig/verif/mut"
	"github.com/taurusgroup/multi-party-sig/verif/ref"
	"github.com/taurusgroup/multi-party-sig/verif/scen"
	"github.com/taurusgroup/multi-party-sig/verif/sim"
)

func init() {
	fw.Register(&fw.PropDef{
		ID: "C13", Level: "fault_enumeration", Engine: "netsim(two-node link)",
		Cases: func(tier string) int {
			if tier == "thorough" {
				return 150000
			}
			return 8000
		},
		Run:  runC13,
		Rule: "one case = two nodes (OT sender, OT receiver, each with its own randomness stream) exchanging the real internal/ot messages over a simulated link that encodes every message with cbor and decodes it into the library's pre-shaped empty message; layer drawn from {random OT setup + transfer, correlated-OT setup, correlated OT, extended OT, additive OT, multiply, multiply x k on one setup with distinct nonces}; inputs from the lattice scalars {0,1,2,q-1,2^k,2^k-1,random}^2 and choice vectors {all-zero, all-one, alternating, single-bit, random} of 1..16 bytes. Fault catalogue = (layer x message of the exchange x field path x operator {bitflip, +-1, zero, boundary, swap siblings, drop, null, empty, array shrink/grow, random, truncate/extend}); 2/3 of the cases inject one alteration, 1/3 none. Oracle, no fault: pad = chosen pad; t_j = q_j xor choice_j*Delta; extended selections; additive shares sum to choice*alpha; multiply shares sum to a*b (reference big-integer arithmetic). Fault: the exchange ends in an error on some side or the relation still holds exactly; never a panic. Non-trivial = the layer's exchange actually ran (and, for fault cases, the alteration fired). Distinct = (layer, input classes, message, operator, path class).",
		Assumptions: []string{
			"only the altered-message clause is decided by fault injection; the all-inputs clause is a sampled workload over the boundary lattice",
			"unexported result fields of internal/ot are read by reflection in the harness",
		},
		RealStub: map[string][]string{
			"real": {"internal/ot (random, correlated, extended, additive, multiply, bits)", "cbor codecs of the OT messages"},
			"stub": {"link between the two nodes", "randomness source"},
		},
	})
}

var scalarLattice = func() []*big.Int {
	q := ref.Q
	out := []*big.Int{big.NewInt(0), big.NewInt(1), big.NewInt(2), new(big.Int).Sub(q, big.NewInt(1)), new(big.Int).Sub(q, big.NewInt(2))}
	for _, k := range []uint{1, 8, 64, 127, 128, 255} {
		p := new(big.Int).Lsh(big.NewInt(1), k)
		out = append(out, new(big.Int).Mod(p, q), new(big.Int).Mod(new(big.Int).Sub(p, big.NewInt(1)), q))
	}
	return out
}()

func drawScalar(c *fw.Ctx, lbl string) (*big.Int, string) {
	k := c.S.Draw(len(scalarLattice)+3, lbl)
	if k < len(scalarLattice) {
		return scalarLattice[k], fmt.Sprintf("L%d", k)
	}
	b := c.S.Bytes(8, lbl+"-rnd")
	x := new(big.Int).SetBytes(append(b, bytes.Repeat(b, 3)...))
	return x.Mod(x, ref.Q), "rnd"
}

func drawChoices(c *fw.Ctx, nbytes int) ([]byte, string) {
	out := make([]byte, nbytes)
	kind := c.S.Draw(5, "choice-pattern")
	name := [...]string{"zero", "ones", "alternating", "single-bit", "random"}[kind]
	switch kind {
	case 1:
		for i := range out {
			out[i] = 0xff
		}
	case 2:
		for i := range out {
			out[i] = 0xaa
		}
	case 3:
		b := c.S.Draw(nbytes*8, "bit")
		out[b/8] = 1 << uint(b%8)
	case 4:
		if nbytes > 64 {
			// large batches: one drawn value expanded by xorshift, so that the decision log stays short
			x := uint64(c.S.Draw(1<<16, "cb-seed"))*0x9e3779b97f4a7c15 + 1
			for i := range out {
				x ^= x << 13
				x ^= x >> 7
				x ^= x << 17
				out[i] = byte(x >> 24)
			}
			break
		}
		for i := range out {
			out[i] = byte(c.S.Draw(256, "cb"))
		}
	}
	return out, name
}

// link is the simulated wire between the two nodes with at most one alteration per case.
type link struct {
	c        *fw.Ctx
	seq      int
	target   int // index of the message to alter (-1 none)
	applied  *mut.Result
	appliedN string
	names    []string
}

// send moves src to dst through cbor; dst must be a pre-shaped message. Returns a decode error (the
// receiving side refuses the message) or nil.
func (l *link) send(name string, src, dst interface{}) (err error) {
	defer func() {
		if p := recover(); p != nil {
			err = fmt.Errorf("decoder panicked: %v", p)
			l.c.Probe("decoder_panic_counted_as_refusal", 1)
		}
	}()
	b, e := cbor.Marshal(src)
	if e != nil {
		scen.Fatalf("C13: cannot encode %s: %v", name, e)
	}
	idx := l.seq
	l.seq++
	l.names = append(l.names, name)
	if idx == l.target {
		tree, e := mut.Decode(b)
		if e == nil {
			nodes := mut.Nodes(tree)
			ops := []string{"bitflip", "plus1", "minus1", "zero-same-length", "boundary", "swap-siblings", "drop", "null", "zero-length", "array-remove-last", "array-dup-last", "random-same-length", "truncate-1", "extend-1"}
			for try := 0; try < 10 && l.applied == nil; try++ {
				op := ops[l.c.S.Draw(len(ops), "op")]
				var apps []mut.Node
				for _, n := range nodes {
					if mut.Applicable(op, n) {
						apps = append(apps, n)
					}
				}
				if len(apps) == 0 {
					continue
				}
				n := mut.PickNode(l.c.S, apps)
				t2, res, ok := mut.Apply(l.c.S, mut.Clone(tree), n, op, nil)
				if !ok {
					continue
				}
				nb := mut.Encode(t2)
				if bytes.Equal(nb, b) {
					continue
				}
				b = nb
				l.applied = &res
				l.appliedN = name
			}
		}
	}
	return cbor.Unmarshal(b, dst)
}

func unexp(v interface{}, f string) interface{} { return scen.UnexportedField(v, f).Interface() }

func xorBytes(a, b [16]byte) (o [16]byte) {
	for i := range o {
		o[i] = a[i] ^ b[i]
	}
	return
}

func bitOf(i int, data []byte) byte { return (data[i>>3] >> uint(i&7)) & 1 }

type otWorld struct {
	c    *fw.Ctx
	l    *link
	S, R *sim.DRBG
	ss   *ot.CorreOTSendSetup
	rs   *ot.CorreOTReceiveSetup
}

func (w *otWorld) asS(f func()) { old := w.c.R.Use(w.S); f(); w.c.R.Use(old) }
func (w *otWorld) asR(f func()) { old := w.c.R.Use(w.R); f(); w.c.R.Use(old) }

// setup runs the correlated-OT setup over the link. Returns "" on success, else the refusing step.
func (w *otWorld) setup(ctx *hash.Hash) (refused string) {
	g := scen.Group
	var sender *ot.CorreOTSetupSender
	var receiver *ot.CorreOTSetupReceiver
	w.asS(func() { sender = ot.NewCorreOTSetupSender(nil, ctx.Clone()) })
	w.asR(func() { receiver = ot.NewCorreOTSetupReceiver(nil, ctx.Clone(), g) })
	var r1 *ot.CorreOTSetupReceiveRound1Message
	w.asR(func() { r1 = receiver.Round1() })
	r1w := ot.EmptyCorreOTSetupReceiveRound1Message(g)
	if err := w.l.send("setup/R1", r1, r1w); err != nil {
		return "decode setup/R1: " + err.Error()
	}
	var s1 *ot.CorreOTSetupSendRound1Message
	var err error
	w.asS(func() { s1, err = sender.Round1(r1w) })
	if err != nil {
		return "sender.Round1: " + err.Error()
	}
	s1w := new(ot.CorreOTSetupSendRound1Message)
	if err := w.l.send("setup/S1", s1, s1w); err != nil {
		return "decode setup/S1: " + err.Error()
	}
	var r2 *ot.CorreOTSetupReceiveRound2Message
	w.asR(func() { r2, err = receiver.Round2(s1w) })
	if err != nil {
		return "receiver.Round2: " + err.Error()
	}
	r2w := new(ot.CorreOTSetupReceiveRound2Message)
	if err := w.l.send("setup/R2", r2, r2w); err != nil {
		return "decode setup/R2: " + err.Error()
	}
	var s2 *ot.CorreOTSetupSendRound2Message
	w.asS(func() { s2 = sender.Round2(r2w) })
	s2w := new(ot.CorreOTSetupSendRound2Message)
	if err := w.l.send("setup/S2", s2, s2w); err != nil {
		return "decode setup/S2: " + err.Error()
	}
	var r3 *ot.CorreOTSetupReceiveRound3Message
	w.asR(func() { r3, w.rs, err = receiver.Round3(s2w) })
	if err != nil {
		return "receiver.Round3: " + err.Error()
	}
	r3w := new(ot.CorreOTSetupReceiveRound3Message)
	if err := w.l.send("setup/R3", r3, r3w); err != nil {
		return "decode setup/R3: " + err.Error()
	}
	w.asS(func() { w.ss, err = sender.Round3(r3w) })
	if err != nil {
		return "sender.Round3: " + err.Error()
	}
	return ""
}

// setupRelation: K_Delta[i] == (Delta_i ? K_1[i] : K_0[i]).
func (w *otWorld) setupRelation() string {
	delta := unexp(w.ss, "_Delta").([16]byte)
	kd := unexp(w.ss, "_K_Delta").([128][16]byte)
	k0 := unexp(w.rs, "_K_0").([128][16]byte)
	k1 := unexp(w.rs, "_K_1").([128][16]byte)
	for i := 0; i < 128; i++ {
		want := k0[i]
		if bitOf(i, delta[:]) == 1 {
			want = k1[i]
		}
		if kd[i] != want {
			return fmt.Sprintf("setup: K_Delta[%d] is not the pad selected by Delta bit %d", i, i)
		}
	}
	return ""
}

func runC13(c *fw.Ctx) {
	layers := []string{"multiply", "multiply-reuse", "additive", "extended", "correlated", "setup", "random-ot"}
	layer := layers[c.S.Draw(len(layers), "layer")]
	inject := c.S.Draw(3, "inject-fault") > 0
	w := &otWorld{c: c, S: sim.NewDRBG(c.Label("ot-sender")), R: sim.NewDRBG(c.Label("ot-receiver"))}
	w.l = &link{c: c, target: -1}
	sig := func(what string) string {
		if w.l.applied != nil {
			return fmt.Sprintf("%s/%s/%s/%s@%s", what, layer, w.l.appliedN, w.l.applied.Op, w.l.applied.Path.Class())
		}
		return fmt.Sprintf("%s/%s/no-fault", what, layer)
	}
	desc := ""
	defer func() {
		if p := recover(); p != nil {
			if f, ok := p.(scen.Fatal); ok {
				panic(f)
			}
			st := string(debug.Stack())
			c.R.Use(nil)
			c.Violate("panic@"+sim.LibFrame(st)+"/"+layer, "the OT layer panicked (%s; alteration: %v in %s): %v\n%s", desc, w.l.applied, w.l.appliedN, p, trim5(st))
		}
		c.Res.Desc = fmt.Sprintf("%s %s fault=%v in %s", layer, desc, w.l.applied, w.l.appliedN)
		if w.l.applied != nil {
			c.Res.DistinctID = fmt.Sprintf("%s|%s|%s|%s|%s", layer, desc, w.l.appliedN, w.l.applied.Op, w.l.applied.Path.Class())
			c.Fault("ot_message_altered:"+w.l.applied.Op, 1)
		} else {
			c.Res.DistinctID = layer + "|" + desc
		}
		c.Res.Sample = map[string]interface{}{"desc": c.Res.Desc, "messages": w.l.names}
	}()
	ctx := hash.New()
	_ = ctx.WriteAny(&hash.BytesWithDomain{TheDomain: "verif C13", Bytes: []byte(c.Label("ctx"))})

	// messages of the exchange, to choose the target: setup has 6, then the layer's own
	nSetup := 6
	layerMsgs := map[string]int{"multiply": 2, "multiply-reuse": 6, "additive": 2, "extended": 1, "correlated": 1, "setup": 0, "random-ot": 5}[layer]
	if inject {
		if layer == "random-ot" {
			w.l.target = c.S.Draw(layerMsgs, "target")
		} else if layer == "setup" || c.S.Draw(4, "target-in-setup") == 3 {
			w.l.target = c.S.Draw(nSetup, "target")
		} else {
			w.l.target = nSetup + c.S.Draw(layerMsgs, "target")
		}
	}
	refusedOK := func(step string) {
		// an error somewhere: legitimate only if a message was altered
		c.Res.NonTrivial = true
		if w.l.applied == nil {
			c.Violate("refused-without-fault/"+layer, "the exchange failed although no message was altered: %s (%s)", step, desc)
			return
		}
		c.Probe("alteration_refused", 1)
	}
	if layer == "random-ot" {
		runRandomOT(c, w, ctx, &desc, sig, refusedOK)
		return
	}
	if r := w.setup(ctx); r != "" {
		refusedOK(r)
		return
	}
	if rel := w.setupRelation(); rel != "" {
		c.Res.NonTrivial = true
		c.Violate(sig("wrong-setup"), "%s (alteration: %v in %s)", rel, w.l.applied, w.l.appliedN)
		return
	}
	if layer == "setup" {
		c.Res.NonTrivial = true
		desc = "correlated-OT setup"
		if w.l.applied != nil {
			c.Probe("alteration_harmless", 1)
		}
		return
	}
	g := scen.Group
	nonce := func(i int) *hash.Hash {
		h := ctx.Clone()
		_ = h.WriteAny(&hash.BytesWithDomain{TheDomain: "nonce", Bytes: []byte{byte(i)}})
		return h
	}
	switch layer {
	case "correlated", "extended":
		nb := []int{1, 2, 4, 16}[c.S.Draw(4, "batch-bytes")]
		if c.S.Draw(24, "huge-batch") == 0 {
			// batch sizes around the 16-bit boundary of the per-transfer counter (and past a byte boundary of it)
			nb = []int{8191, 8192, 8193, 8196}[c.S.Draw(4, "huge-batch-bytes")]
			c.Probe("batch_over_65535_transfers", 1)
		}
		choices, cn := drawChoices(c, nb)
		desc = fmt.Sprintf("batch=%d choices=%s", nb*8, cn)
		delta := unexp(w.ss, "_Delta").([16]byte)
		if layer == "correlated" {
			var msg *ot.CorreOTReceiveMessage
			var rr *ot.CorreOTReceiveResult
			w.asR(func() { msg, rr = ot.CorreOTReceive(nonce(0), w.rs, choices) })
			mw := new(ot.CorreOTReceiveMessage)
			if err := w.l.send("correlated/R1", msg, mw); err != nil {
				refusedOK("decode: " + err.Error())
				return
			}
			var sr *ot.CorreOTSendResult
			var err error
			w.asS(func() { sr, err = ot.CorreOTSend(nonce(0), w.ss, nb*8, mw) })
			if err != nil {
				refusedOK("CorreOTSend: " + err.Error())
				return
			}
			c.Res.NonTrivial = true
			T := unexp(rr, "_T").([][16]byte)
			Q := unexp(sr, "_Q").([][16]byte)
			for j := 0; j < nb*8; j++ {
				want := Q[j]
				if bitOf(j, choices) == 1 {
					want = xorBytes(Q[j], delta)
				}
				if T[j] != want {
					if w.l.applied != nil {
						// the correlated layer has no integrity check of its own: an altered U is only caught
						// by the extended layer built on top of it. Not a violation of this layer's relation
						// under fault, since nothing "ended" successfully with a claimed product.
						c.Probe("correlated_relation_broken_by_alteration(undetectable at this layer)", 1)
						return
					}
					c.Violate(sig("correlated-relation"), "t_%d != q_%d xor choice*Delta (%s)", j, j, desc)
					return
				}
			}
		} else {
			var msg *ot.ExtendedOTReceiveMessage
			var rr *ot.ExtendedOTReceiveResult
			w.asR(func() { msg, rr = ot.ExtendedOTReceive(nonce(0), w.rs, choices) })
			mw := new(ot.ExtendedOTReceiveMessage)
			if err := w.l.send("extended/R1", msg, mw); err != nil {
				refusedOK("decode: " + err.Error())
				return
			}
			var sr *ot.ExtendedOTSendResult
			var err error
			w.asS(func() { sr, err = ot.ExtendedOTSend(nonce(0), w.ss, nb*8, mw) })
			if err != nil {
				refusedOK("ExtendedOTSend: " + err.Error())
				return
			}
			c.Res.NonTrivial = true
			V0 := unexp(sr, "_V0").([][16]byte)
			V1 := unexp(sr, "_V1").([][16]byte)
			VC := unexp(rr, "_VChoices").([][16]byte)
			for j := 0; j < nb*8; j++ {
				want := V0[j]
				if bitOf(j, choices) == 1 {
					want = V1[j]
				}
				if VC[j] != want {
					c.Violate(sig("extended-selection"), "receiver's pad %d is not the one it chose (choice bit %d) (%s; alteration %v)", j, bitOf(j, choices), desc, w.l.applied)
					return
				}
			}
		}
	case "additive":
		nb := []int{1, 2, 4, 16, 33}[c.S.Draw(5, "batch-bytes")]
		if c.S.Draw(60, "huge-batch") == 0 {
			nb = []int{8193, 8196}[c.S.Draw(2, "huge-batch-bytes")]
			c.Probe("batch_over_65535_transfers", 1)
		}
		choices, cn := drawChoices(c, nb)
		a0, n0 := drawScalar(c, "alpha0")
		a1, n1 := drawScalar(c, "alpha1")
		desc = fmt.Sprintf("batch=%d choices=%s alpha=(%s,%s)", nb*8, cn, n0, n1)
		var recv *ot.AdditiveOTReceiver
		var r1 *ot.AdditiveOTReceiveRound1Message
		w.asR(func() {
			recv = ot.NewAdditiveOTReceiver(nonce(0), w.rs, g, choices)
			r1 = recv.Round1()
		})
		r1w := new(ot.AdditiveOTReceiveRound1Message)
		if err := w.l.send("additive/R1", r1, r1w); err != nil {
			refusedOK("decode: " + err.Error())
			return
		}
		var s1 *ot.AdditiveOTSendRound1Message
		var sres ot.AdditiveOTSendResult
		var err error
		w.asS(func() {
			snd := ot.NewAdditiveOTSender(nonce(0), w.ss, nb*8, [2]curve.Scalar{scen.LibScalar(a0), scen.LibScalar(a1)})
			s1, sres, err = snd.Round1(r1w)
		})
		if err != nil {
			refusedOK("sender.Round1: " + err.Error())
			return
		}
		s1w := new(ot.AdditiveOTSendRound1Message)
		if err := w.l.send("additive/S1", s1, s1w); err != nil {
			refusedOK("decode: " + err.Error())
			return
		}
		var rres ot.AdditiveOTReceiveResult
		w.asR(func() { rres, err = recv.Round2(s1w) })
		if err != nil {
			refusedOK("receiver.Round2: " + err.Error())
			return
		}
		c.Res.NonTrivial = true
		for j := 0; j < nb*8; j++ {
			for k, a := range []*big.Int{a0, a1} {
				sum := new(big.Int).Add(scen.Sc(sres[j][k]), scen.Sc(rres[j][k]))
				sum.Mod(sum, ref.Q)
				want := new(big.Int)
				if bitOf(j, choices) == 1 {
					want.Set(a)
				}
				if sum.Cmp(want) != 0 {
					if w.l.applied != nil {
						// additive OT has no integrity check of its own either (multiply adds it)
						c.Probe("additive_relation_broken_by_alteration(undetectable at this layer)", 1)
						return
					}
					c.Violate(sig("additive-relation"), "shares %d/%d sum to %x, want choice*alpha = %x (%s)", j, k, sum, want, desc)
					return
				}
			}
		}
	case "multiply", "multiply-reuse":
		reps := 1
		if layer == "multiply-reuse" {
			reps = 3
		}
		for i := 0; i < reps; i++ {
			a, an := drawScalar(c, "a")
			b, bn := drawScalar(c, "b")
			desc += fmt.Sprintf("[a=%s b=%s]", an, bn)
			var recv *ot.MultiplyReceiver
			var err error
			var r1 *ot.MultiplyReceiveRound1Message
			w.asR(func() {
				recv, err = ot.NewMultiplyReceiver(nonce(i), w.rs, scen.LibScalar(b))
				if err == nil {
					r1 = recv.Round1()
				}
			})
			if err != nil {
				c.Violate("multiply-receiver-refuses-input/"+bn, "NewMultiplyReceiver refused beta=%s: %v", bn, err)
				return
			}
			r1w := new(ot.MultiplyReceiveRound1Message)
			if err := w.l.send("multiply/R1", r1, r1w); err != nil {
				refusedOK("decode: " + err.Error())
				return
			}
			var s1 *ot.MultiplySendRound1Message
			var shareA curve.Scalar
			w.asS(func() {
				snd := ot.NewMultiplySender(nonce(i), w.ss, scen.LibScalar(a))
				s1, shareA, err = snd.Round1(r1w)
			})
			if err != nil {
				refusedOK("sender.Round1: " + err.Error())
				return
			}
			s1w := recv.EmptyMultiplySendRound1Message()
			if err := w.l.send("multiply/S1", s1, s1w); err != nil {
				refusedOK("decode: " + err.Error())
				return
			}
			var shareB curve.Scalar
			w.asR(func() { shareB, err = recv.Round2(s1w) })
			if err != nil {
				refusedOK("receiver.Round2: " + err.Error())
				return
			}
			c.Res.NonTrivial = true
			sum := new(big.Int).Add(scen.Sc(shareA), scen.Sc(shareB))
			sum.Mod(sum, ref.Q)
			want := new(big.Int).Mul(a, b)
			want.Mod(want, ref.Q)
			if sum.Cmp(want) != 0 {
				c.Violate(sig("wrong-product"), "multiplication #%d finished on both sides but the shares sum to %x, a*b = %x (a=%s b=%s; alteration %v in %s)", i, sum, want, an, bn, w.l.applied, w.l.appliedN)
				return
			}
			c.Probe("products_checked", 1)
		}
	}
	if w.l.applied != nil {
		c.Probe("alteration_harmless", 1)
	}
}

func runRandomOT(c *fw.Ctx, w *otWorld, ctx *hash.Hash, desc *string, sig func(string) string, refusedOK func(string)) {
	g := scen.Group
	choice := c.S.Draw(2, "choice")
	*desc = fmt.Sprintf("choice=%d", choice)
	var sm *ot.RandomOTSetupSendMessage
	var ssetup *ot.RandomOTSendSetup
	w.asS(func() { sm, ssetup = ot.RandomOTSetupSend(ctx.Clone(), g) })
	smw := ot.EmptyRandomOTSetupSendMessage(g)
	if err := w.l.send("random/setup", sm, smw); err != nil {
		refusedOK("decode: " + err.Error())
		return
	}
	var rsetup *ot.RandomOTReceiveSetup
	var err error
	w.asR(func() { rsetup, err = ot.RandomOTSetupReceive(ctx.Clone(), smw) })
	if err != nil {
		refusedOK("RandomOTSetupReceive: " + err.Error())
		return
	}
	nh := sha256.Sum256([]byte(c.Label("rot-nonce")))
	nonce := nh[:]
	var recv ot.RandomOTReceiever
	var snd ot.RandomOTSender
	var r1 ot.RandomOTReceiveRound1Message
	w.asR(func() {
		recv = ot.NewRandomOTReceiver(nonce, rsetup, saferith.Choice(choice))
		r1, err = recv.Round1()
	})
	if err != nil {
		refusedOK("receiver.Round1: " + err.Error())
		return
	}
	var r1w ot.RandomOTReceiveRound1Message
	if err := w.l.send("random/R1", &r1, &r1w); err != nil {
		refusedOK("decode: " + err.Error())
		return
	}
	var s1 ot.RandomOTSendRound1Message
	w.asS(func() {
		snd = ot.NewRandomOTSender(nonce, ssetup)
		s1, err = snd.Round1(&r1w)
	})
	if err != nil {
		refusedOK("sender.Round1: " + err.Error())
		return
	}
	var s1w ot.RandomOTSendRound1Message
	if err := w.l.send("random/S1", &s1, &s1w); err != nil {
		refusedOK("decode: " + err.Error())
		return
	}
	var r2 ot.RandomOTReceiveRound2Message
	w.asR(func() { r2 = recv.Round2(&s1w) })
	var r2w ot.RandomOTReceiveRound2Message
	if err := w.l.send("random/R2", &r2, &r2w); err != nil {
		refusedOK("decode: " + err.Error())
		return
	}
	var s2 ot.RandomOTSendRound2Message
	var sres ot.RandomOTSendResult
	w.asS(func() { s2, sres, err = snd.Round2(&r2w) })
	if err != nil {
		refusedOK("sender.Round2: " + err.Error())
		return
	}
	var s2w ot.RandomOTSendRound2Message
	if err := w.l.send("random/S2", &s2, &s2w); err != nil {
		refusedOK("decode: " + err.Error())
		return
	}
	var pad [16]byte
	w.asR(func() { pad, err = recv.Round3(&s2w) })
	if err != nil {
		refusedOK("receiver.Round3: " + err.Error())
		return
	}
	c.Res.NonTrivial = true
	want := sres.Rand0
	if choice == 1 {
		want = sres.Rand1
	}
	if pad != want {
		c.Violate(sig("wrong-pad"), "random OT finished on both sides but the receiver's pad is not the pad it chose (choice=%d; alteration %v in %s)", choice, w.l.applied, w.l.appliedN)
	}
	if w.l.applied != nil {
		c.Probe("alteration_harmless", 1)
	}
}

#!/bin/bash
# bg_thorough.sh <PROP> <seed> [tier]: run a check from a private copy of the binaries, writing evidence and
# replays under /tmp/bg/<PROP>-<seed>/ so that the registered checks' files are not disturbed.
P=$1; SEED=${2:-1}; TIER=${3:-thorough}
D=/tmp/bg/$P-$SEED; mkdir -p $D/bin/race $D/evidence
cp /tmp/bg/bincur/vcheck /tmp/bg/bincur/vcheck-race /tmp/bg/bincur/poolsim.test $D/bin/ 2>/dev/null  # binaries frozen from a clean tree (refresh: ./setup.sh && cp .bin/* /tmp/bg/bincur/)
cd /verif
VERIF_OUT=$D VERIF_SEED=$SEED nice -n 10 $D/bin/vcheck run $P $TIER > $D/log 2>&1
echo "exit=$?" >> $D/log

package scen

import (
	"crypto/sha256"
	"fmt"
	"sort"
	"strings"

	"github.com/taurusgroup/multi-party-sig/pkg/party"
	"github.com/taurusgroup/multi-party-sig/verif/fw"
	"github.com/taurusgroup/multi-party-sig/verif/sim"
)

// IDPool is the catalogue of identifier shapes (short, long, >32 bytes, non-ASCII, adjacent).
var IDPool = []party.ID{
	"a", "b", "c", "d", "e", "f", "g", "h",
	"alice", "bob", "carol", "dave",
	"\x01", "\x02", "\x03",
	"zürich", "日本", "ключ",
	"0123456789abcdef0123456789abcdef",                  // 32 bytes
	"0123456789abcdef0123456789abcdeg",                  // adjacent to the previous
	"this-identifier-is-longer-than-thirty-two-bytes-A", // > 32 bytes: reduced mod q
	"this-identifier-is-longer-than-thirty-two-bytes-B",
	"participant-0001", "participant-0002", "participant-0003",
	"A", "B", "Z", "~",
}

// DrawIDs picks n distinct identifiers; style 0 = the plain letters a,b,c...
func DrawIDs(s *sim.Source, n int) []party.ID {
	if s.Draw(3, "idstyle") == 0 {
		ids := make([]party.ID, n)
		for i := range ids {
			ids[i] = IDPool[i]
		}
		return ids
	}
	pool := append([]party.ID{}, IDPool...)
	ids := make([]party.ID, 0, n)
	for len(ids) < n {
		k := s.Draw(len(pool), "id")
		ids = append(ids, pool[k])
		pool = append(pool[:k], pool[k+1:]...)
	}
	return sortedIDs(ids)
}

// DrawSubset draws a subset of ids of a size in [min, len(ids)].
func DrawSubset(s *sim.Source, ids []party.ID, min int) []party.ID {
	size := min + s.Draw(len(ids)-min+1, "subset-size")
	pool := append([]party.ID{}, ids...)
	var out []party.ID
	// draw which to REMOVE so that 0-decisions keep a prefix-free full set simple
	for len(pool) > size {
		k := len(pool) - 1 - s.Draw(len(pool), "subset-drop")
		pool = append(pool[:k], pool[k+1:]...)
	}
	out = pool
	return sortedIDs(out)
}

var MsgLens = []int{32, 1, 20, 31, 33, 64, 65, 200}

// DrawMsg draws a message hash of one of the catalogue lengths with seeded content.
func DrawMsg(c *fw.Ctx) []byte {
	l := MsgLens[c.S.Draw(len(MsgLens), "msglen")]
	h := sha256.Sum256([]byte(c.Label("msg")))
	out := make([]byte, l)
	for i := range out {
		out[i] = h[i%32] ^ byte(i/32)
	}
	if out[0] == 0 {
		out[0] = 1
	}
	return out
}

// Session is one simulated protocol session.
type Session struct {
	Net   *sim.Net
	Nodes map[party.ID]*sim.Node
	Order []party.ID
	Errs  map[party.ID]error // construction errors
}

// Opt tweaks a session before it runs.
type Opt func(n *sim.Net)

// NewSession creates the world and its nodes (construction emits first-round messages) but does not run it.
func NewSession(c *fw.Ctx, tag string, mk map[party.ID]Mk, honest func(party.ID) bool) *Session {
	return NewSessionL(c, tag, mk, honest, nil)
}

// NewSessionL is NewSession with a per-party override of the randomness-stream label.
func NewSessionL(c *fw.Ctx, tag string, mk map[party.ID]Mk, honest func(party.ID) bool, label func(party.ID) string) *Session {
	n := sim.NewNet(c.S, c.R)
	n.NoLog = !c.KeepLog
	s := &Session{Net: n, Nodes: map[party.ID]*sim.Node{}, Errs: map[party.ID]error{}}
	ids := make([]party.ID, 0, len(mk))
	for id := range mk {
		ids = append(ids, id)
	}
	ids = sortedIDs(ids)
	s.Order = ids
	for _, id := range ids {
		h := true
		if honest != nil {
			h = honest(id)
		}
		lab := c.Label(tag, id)
		if label != nil {
			if l := label(id); l != "" {
				lab = l
			}
		}
		node, err := n.Add(id, lab, h, tag, mk[id])
		s.Nodes[id] = node
		if err != nil {
			s.Errs[id] = err
		}
	}
	// first-round messages are emitted by Net.Run (after the caller installed its hooks)
	return s
}

// Run executes the session to quiescence under the drawn policy.
func (s *Session) Run(c *fw.Ctx, drawPolicy bool) {
	if drawPolicy && s.Net.Policy == nil {
		s.Net.Policy = sim.DrawPolicy(s.Net)
	}
	s.Net.Run()
	c.Absorb(s.Net)
}

// Results collects Result() of every live node.
func (s *Session) Results() (vals map[party.ID]interface{}, errs map[party.ID]error) {
	vals = map[party.ID]interface{}{}
	errs = map[party.ID]error{}
	for id, nd := range s.Nodes {
		if nd.H == nil {
			errs[id] = fmt.Errorf("no handler: %v", s.Errs[id])
			continue
		}
		if nd.Hang {
			errs[id] = fmt.Errorf("hang")
			continue
		}
		v, err := nd.H.Result()
		if err != nil {
			errs[id] = err
		} else {
			vals[id] = v
		}
	}
	return
}

// CheckCrash reports panics / hangs of any node as violations with per-site signatures.
func (s *Session) CheckCrash(c *fw.Ctx, where string) bool {
	bad := false
	for _, id := range s.Order {
		nd := s.Nodes[id]
		if nd.Panic != "" {
			bad = true
			first := nd.Panic
			if i := strings.Index(first, "\n"); i > 0 {
				first = first[:i]
			}
			c.Violate("panic@"+nd.PanicFn, "%s: party %q panicked: %s\n%s", where, id, first, nd.Panic)
		}
		if nd.Hang {
			bad = true
			if nd.H == nil {
				c.Violate("hang@constructor", "%s: constructing the handler of party %q did not return within the watchdog bound (%d parties in the session)", where, id, len(s.Order))
			} else {
				c.Violate("hang", "%s: call into party %q did not return within the watchdog bound", where, id)
			}
		}
	}
	return bad
}

// DeliveryHash is a digest of the canonical delivery sequence (the interleaving measure).
func (s *Session) DeliveryHash() string {
	h := sha256.New()
	for _, d := range s.Net.Delivered {
		h.Write([]byte(d))
		h.Write([]byte{0})
	}
	return fmt.Sprintf("%x", h.Sum(nil)[:8])
}

// Collect builds Material from the results of a keygen/refresh session; missing parties are reported.
func Collect(p Proto, ids []party.ID, t int, vals map[party.ID]interface{}) *Material {
	m := &Material{Proto: p, IDs: sortedIDs(ids), T: t, Cfg: map[party.ID]interface{}{}}
	for id, v := range vals {
		m.Cfg[id] = v
	}
	return m
}

func SortedKeys(m map[string]int) []string {
	var out []string
	for k := range m {
		out = append(out, k)
	}
	sort.Strings(out)
	return out
}

package scen

// A synthetic protocol for the handler itself. The shipped protocols exercise only a few round
// shapes through MultiHandler (after round 1 every cmp / frost round has a broadcast); a library user
// may write rounds of any shape, and the handler's queueing, replay and echo logic is shape dependent.
// The toy protocol has a drawn number of rounds, each of which expects a broadcast (plain or
// reliable), point-to-point messages, or both; every message is verifiable, so a message that is
// counted as received but never handed to the round is noticed at Finalize.

import (
	"bytes"
	"crypto/rand"
	"crypto/sha256"
	"errors"
	"fmt"

	"github.com/taurusgroup/multi-party-sig/internal/round"
	"github.com/taurusgroup/multi-party-sig/pkg/party"
	"github.com/taurusgroup/multi-party-sig/pkg/protocol"
)

// ToyShape says what a round (number >= 2) expects from every other party.
type ToyShape struct {
	Bcast    bool
	Reliable bool
	P2P      bool
}

func (s ToyShape) String() string {
	out := ""
	if s.Bcast {
		out += "b"
		if s.Reliable {
			out += "R"
		}
	}
	if s.P2P {
		out += "p"
	}
	return out
}

// ToyResult is what every party ends with: a digest of all parties' values.
type ToyResult []byte

type toyState struct {
	shapes []ToyShape // shapes[i] belongs to round i+2
	own    []byte
	vals   map[party.ID][]byte       // values revealed in round 2
	gotB   map[int]map[party.ID]bool // round -> sender -> broadcast handed to the round
	gotP   map[int]map[party.ID]bool // round -> sender -> p2p message handed to the round
	// every broadcast also carries a fresh, unverifiable nonce that enters the result: two versions of
	// one broadcast are both valid, and parties that used different versions end with different results
	nonces map[int]map[party.ID][]byte
	// the last round's messages carry a digest of the sender's view of everything before; it is NOT
	// checked when the message is verified but when the round is finalized, which then ends in an
	// identifiable-abort round naming the senders whose digest differs (the path cmp sign round 5 takes)
	views  map[party.ID][]byte
	digest bool // the last round carries and compares view digests (off in the equivocation worlds: it would detect by itself what the echo mechanism is there to detect)
}

func toyTag(kind string, r int, v []byte, to party.ID) []byte {
	h := sha256.New()
	fmt.Fprintf(h, "toy|%s|%d|%x|%s", kind, r, v, to)
	return h.Sum(nil)
}

// contents (one type per direction; the round number travels in the header only)
type toyP struct {
	V []byte
	T []byte // last round only: digest of the sender's view, compared at Finalize
	n round.Number
}

func (c *toyP) RoundNumber() round.Number { return c.n }

type toyB struct {
	round.NormalBroadcastContent
	V []byte
	W []byte
	T []byte
	n round.Number
}

func (c *toyB) RoundNumber() round.Number { return c.n }

type toyRB struct {
	round.ReliableBroadcastContent
	V []byte
	W []byte
	T []byte
	n round.Number
}

func (c *toyRB) RoundNumber() round.Number { return c.n }

// toyRound: a round without a broadcast.
type toyRound struct {
	*round.Helper
	n  int
	st *toyState
}

// toyRoundB: a round that also expects a broadcast.
type toyRoundB struct {
	*toyRound
}

func (r *toyRound) shape() ToyShape {
	if r.n < 2 {
		return ToyShape{}
	}
	return r.st.shapes[r.n-2]
}

func (r *toyRound) Number() round.Number { return round.Number(r.n) }

func (r *toyRound) MessageContent() round.Content {
	if r.n < 2 || !r.shape().P2P {
		return nil
	}
	return &toyP{n: round.Number(r.n)}
}

func (r *toyRoundB) BroadcastContent() round.BroadcastContent {
	if r.shape().Reliable {
		return &toyRB{n: round.Number(r.n)}
	}
	return &toyB{n: round.Number(r.n)}
}

// expected value of a message of round n from `from` (nil: not checkable yet)
func (r *toyRound) expected(kind string, from, to party.ID) []byte {
	v := r.st.vals[from]
	if v == nil {
		return nil
	}
	return toyTag(kind, r.n, v, to)
}

func (r *toyRoundB) StoreBroadcastMessage(msg round.Message) error {
	var v, w, tv []byte
	switch b := msg.Content.(type) {
	case *toyB:
		v, w, tv = b.V, b.W, b.T
	case *toyRB:
		v, w, tv = b.V, b.W, b.T
	default:
		return round.ErrInvalidContent
	}
	if r.n == len(r.st.shapes)+1 {
		r.st.views[msg.From] = append([]byte{}, tv...)
	}
	if len(v) != 32 || len(w) != 16 {
		return errors.New("toy: broadcast value must be 32 bytes, nonce 16")
	}
	if r.n == 2 {
		// round 2's broadcast reveals the sender's value
		r.st.vals[msg.From] = append([]byte{}, v...)
	} else if want := r.expected("b", msg.From, ""); want == nil || !bytes.Equal(want, v) {
		return fmt.Errorf("toy: wrong broadcast value from %s in round %d", msg.From, r.n)
	}
	// only a reliable broadcast that is followed by a further round may carry a free nonce (that is what
	// the echo mechanism protects); elsewhere the "nonce" is derived and checked like everything else
	if !r.freeNonce(r.n) {
		if want := toyTag("w", r.n, r.st.vals[msg.From], "")[:16]; !bytes.Equal(want, w) {
			return fmt.Errorf("toy: wrong derived nonce from %s in round %d", msg.From, r.n)
		}
	}
	r.st.gotB[r.n][msg.From] = true
	r.st.nonces[r.n][msg.From] = append([]byte{}, w...)
	return nil
}

// viewDigest digests everything this party holds from the rounds before the last one.
func (r *toyRound) viewDigest() []byte {
	h := sha256.New()
	last := len(r.st.shapes) + 1
	for _, id := range r.PartyIDs() {
		fmt.Fprintf(h, "%s=%x;", id, r.st.vals[id])
	}
	for rn := 2; rn < last; rn++ {
		for _, id := range r.PartyIDs() {
			fmt.Fprintf(h, "%d/%s=%x;", rn, id, r.st.nonces[rn][id])
		}
	}
	return h.Sum(nil)
}

func (r *toyRound) freeNonce(n int) bool {
	return n >= 2 && r.st.shapes[n-2].Reliable && n < len(r.st.shapes)+1
}

func (r *toyRound) VerifyMessage(msg round.Message) error {
	if r.n < 2 {
		return nil
	}
	p, ok := msg.Content.(*toyP)
	if !ok || p == nil {
		return round.ErrInvalidContent
	}
	if len(p.V) != 32 {
		return errors.New("toy: value must be 32 bytes")
	}
	if r.n == 2 && !r.shape().Bcast {
		return nil // this message reveals the value
	}
	if want := r.expected("p", msg.From, msg.To); want == nil || !bytes.Equal(want, p.V) {
		return fmt.Errorf("toy: wrong value from %s in round %d", msg.From, r.n)
	}
	return nil
}

func (r *toyRound) StoreMessage(msg round.Message) error {
	if r.n < 2 {
		return nil
	}
	p := msg.Content.(*toyP)
	if r.n == 2 && !r.shape().Bcast {
		r.st.vals[msg.From] = append([]byte{}, p.V...)
	}
	r.st.gotP[r.n][msg.From] = true
	if r.n == len(r.st.shapes)+1 && !r.shape().Bcast {
		r.st.views[msg.From] = append([]byte{}, p.T...)
	}
	return nil
}

func (r *toyRound) Finalize(out chan<- *round.Message) (round.Session, error) {
	// everything this round expects must have been handed to it
	if r.n >= 2 {
		for _, j := range r.OtherPartyIDs() {
			if r.shape().Bcast && !r.st.gotB[r.n][j] {
				return r.AbortRound(fmt.Errorf("toy: the round-%d broadcast of %s was never handed to the round", r.n, j), r.SelfID()), nil
			}
			if r.shape().P2P && !r.st.gotP[r.n][j] {
				return r.AbortRound(fmt.Errorf("toy: the round-%d message of %s was never handed to the round", r.n, j), r.SelfID()), nil
			}
		}
	}
	if r.n >= 2 && r.n == len(r.st.shapes)+1 && r.st.digest && len(r.st.shapes) >= 2 {
		// (with a single message round the senders' values are only just being revealed: no view to compare)
		mine := r.viewDigest()
		var culprits []party.ID
		for _, j := range r.OtherPartyIDs() {
			if !bytes.Equal(r.st.views[j], mine) {
				culprits = append(culprits, j)
			}
		}
		if len(culprits) > 0 {
			return r.AbortRound(errors.New("toy: view digest differs"), culprits...), nil
		}
	}
	if r.n == 1 {
		v := make([]byte, 32)
		if _, err := rand.Read(v); err != nil {
			return r, err
		}
		r.st.own = v
		r.st.vals[r.SelfID()] = v
	}
	next := r.n + 1
	if next > len(r.st.shapes)+1 {
		h := sha256.New()
		for _, id := range r.PartyIDs() {
			fmt.Fprintf(h, "%s=%x;", id, r.st.vals[id])
		}
		for rn := 2; rn <= len(r.st.shapes)+1; rn++ {
			for _, id := range r.PartyIDs() {
				fmt.Fprintf(h, "%d/%s=%x;", rn, id, r.st.nonces[rn][id])
			}
		}
		return r.ResultRound(ToyResult(h.Sum(nil))), nil
	}
	sh := r.st.shapes[next-2]
	r.st.gotB[next] = map[party.ID]bool{}
	r.st.gotP[next] = map[party.ID]bool{}
	r.st.nonces[next] = map[party.ID][]byte{}
	if sh.Bcast {
		v := toyTag("b", next, r.st.own, "")
		if next == 2 {
			v = r.st.own
		}
		w := toyTag("w", next, r.st.own, "")[:16]
		if r.freeNonce(next) {
			w = make([]byte, 16)
			if _, err := rand.Read(w); err != nil {
				return r, err
			}
		}
		r.st.nonces[next][r.SelfID()] = w
		var tv []byte
		if next == len(r.st.shapes)+1 && r.st.digest && len(r.st.shapes) >= 2 {
			tv = r.viewDigest()
		}
		var content round.Content
		if sh.Reliable {
			content = &toyRB{V: v, W: w, T: tv, n: round.Number(next)}
		} else {
			content = &toyB{V: v, W: w, T: tv, n: round.Number(next)}
		}
		if err := r.BroadcastMessage(out, content); err != nil {
			return r, err
		}
	}
	if sh.P2P {
		for _, j := range r.OtherPartyIDs() {
			v := toyTag("p", next, r.st.own, j)
			if next == 2 && !sh.Bcast {
				v = r.st.own
			}
			var tv []byte
			if next == len(r.st.shapes)+1 && r.st.digest && len(r.st.shapes) >= 2 && !sh.Bcast {
				tv = r.viewDigest()
			}
			if err := r.SendMessage(out, &toyP{V: v, T: tv, n: round.Number(next)}, j); err != nil {
				return r, err
			}
		}
	}
	nr := &toyRound{Helper: r.Helper, n: next, st: r.st}
	if sh.Bcast {
		return &toyRoundB{nr}, nil
	}
	return nr, nil
}

// StartToy is the start function of the toy protocol.
func StartToy(selfID party.ID, ids []party.ID, shapes []ToyShape, digest bool) protocol.StartFunc {
	return func(sessionID []byte) (round.Session, error) {
		info := round.Info{
			ProtocolID:       "verif/toy",
			FinalRoundNumber: round.Number(len(shapes) + 1),
			SelfID:           selfID,
			PartyIDs:         ids,
		}
		helper, err := round.NewSession(info, sessionID, nil)
		if err != nil {
			return nil, err
		}
		st := &toyState{shapes: shapes, digest: digest, vals: map[party.ID][]byte{}, gotB: map[int]map[party.ID]bool{}, gotP: map[int]map[party.ID]bool{}, nonces: map[int]map[party.ID][]byte{}, views: map[party.ID][]byte{}}
		return &toyRound{Helper: helper, n: 1, st: st}, nil
	}
}

// ToyMk returns the handler constructors of one toy session.
func ToyMk(ids []party.ID, shapes []ToyShape, sid []byte, digest bool) map[party.ID]Mk {
	out := map[party.ID]Mk{}
	for _, id := range ids {
		id := id
		out[id] = func() (protocol.Handler, error) {
			return protocol.NewMultiHandler(StartToy(id, ids, shapes, digest), sid)
		}
	}
	return out
}

// Package scen builds simulated scenarios (key material, sessions) on top of sim and converts
// library values to the reference types of package ref.
package scen

import (
	"bytes"
	"encoding/hex"
	"fmt"
	"github.com/taurusgroup/multi-party-sig/pkg/hash"
	"github.com/taurusgroup/multi-party-sig/pkg/party"
	"math/big"
	"reflect"
	"runtime"
	"unsafe"

	"github.com/taurusgroup/multi-party-sig/internal/round"
	"github.com/taurusgroup/multi-party-sig/pkg/math/curve"
	"github.com/taurusgroup/multi-party-sig/pkg/protocol"
	"github.com/taurusgroup/multi-party-sig/verif/ref"
)

// Fatal is raised (as a panic value) for harness/infrastructure trouble: exit 2, never VIOLATION.
type Fatal struct{ Msg string }

func Fatalf(f string, a ...interface{}) { panic(Fatal{fmt.Sprintf(f, a...)}) }

// Pt converts a library point to a reference point via its public encoding.
func Pt(p curve.Point) ref.Pt {
	if p == nil || (reflect.ValueOf(p).Kind() == reflect.Ptr && reflect.ValueOf(p).IsNil()) {
		Fatalf("bridge: nil point")
	}
	b, err := p.MarshalBinary()
	if err != nil {
		Fatalf("bridge: point marshal: %v", err)
	}
	if len(b) == 33 && bytes.Equal(b[1:], make([]byte, 32)) {
		return ref.Infinity()
	}
	q, err := ref.Decompress(b)
	if err != nil {
		Fatalf("bridge: library point %x not on curve by the reference: %v", b, err)
	}
	return q
}

// Sc converts a library scalar to a big integer.
func Sc(s curve.Scalar) *big.Int {
	if s == nil || (reflect.ValueOf(s).Kind() == reflect.Ptr && reflect.ValueOf(s).IsNil()) {
		Fatalf("bridge: nil scalar")
	}
	b, err := s.MarshalBinary()
	if err != nil {
		Fatalf("bridge: scalar marshal: %v", err)
	}
	return new(big.Int).SetBytes(b)
}

// LibScalar converts a big integer to a library scalar.
func LibScalar(x *big.Int) curve.Scalar {
	b := make([]byte, 32)
	new(big.Int).Mod(x, ref.Q).FillBytes(b)
	s := curve.Secp256k1{}.NewScalar()
	if err := s.UnmarshalBinary(b); err != nil {
		Fatalf("bridge: LibScalar: %v", err)
	}
	return s
}

// LibPoint converts a reference point to a library point.
func LibPoint(p ref.Pt) curve.Point {
	q := curve.Secp256k1{}.NewPoint()
	if p.Inf {
		return q
	}
	if err := q.UnmarshalBinary(p.Compress()); err != nil {
		Fatalf("bridge: LibPoint: %v", err)
	}
	return q
}

// UnexportedField reads an unexported struct field by name (harness-side introspection; a renamed
// field is infrastructure trouble, not a violation).
func UnexportedField(v interface{}, name string) reflect.Value {
	rv := reflect.ValueOf(v)
	for rv.Kind() == reflect.Ptr || rv.Kind() == reflect.Interface {
		rv = rv.Elem()
	}
	if rv.Kind() != reflect.Struct {
		Fatalf("introspection: %T is not a struct", v)
	}
	if !rv.CanAddr() {
		c := reflect.New(rv.Type()).Elem()
		c.Set(rv)
		rv = c
	}
	f := rv.FieldByName(name)
	if !f.IsValid() {
		Fatalf("introspection: %T has no field %q", v, name)
	}
	return reflect.NewAt(f.Type(), unsafe.Pointer(f.UnsafeAddr())).Elem()
}

func Hex(b []byte) string { return hex.EncodeToString(b) }

// SelfCheck validates the reference implementation against published vectors and against the
// library on a few points; any mismatch is infrastructure trouble.
func SelfCheck() {
	// 2G known value
	two := ref.BaseMul(big.NewInt(2))
	if Hex(two.Compress()) != "02c6047f9441ed7d6d3045406e95c07cd85c778e4b8cef3ca7abac09b95c709ee5" {
		Fatalf("ref selfcheck: 2G wrong: %x", two.Compress())
	}
	if !ref.BaseMul(ref.Q).Inf {
		Fatalf("ref selfcheck: qG not infinity")
	}
	// BIP-340 vectors 0 and 1
	v := []struct{ pk, m, sig string }{
		{"F9308A019258C31049344F85F89D5229B531C845836F99B08601F113BCE036F9", "0000000000000000000000000000000000000000000000000000000000000000",
			"E907831F80848D1069A5371B402410364BDF1C5F8307B0084C55F1CE2DCA821525F66A4A85EA8B71E482A74F382D2CE5EBEEE8FDB2172F477DF4900D310536C0"},
		{"DFF1D77F2A671C5F36183726DB2341BE58FEAE1DA2DECED843240F7B502BA659", "243F6A8885A308D313198A2E03707344A4093822299F31D0082EFA98EC4E6C89",
			"6896BD60EEAE296DB48A229FF71DFE071BDE413E6D43F917DC8DCF8C78DE33418906D11AC976ABCCB20B091292BFF4EA897EFCB639EA871CFA95F6DE339E4B0A"},
	}
	for i, t := range v {
		pk, _ := hex.DecodeString(t.pk)
		m, _ := hex.DecodeString(t.m)
		sig, _ := hex.DecodeString(t.sig)
		if !ref.BIP340Verify(pk, m, sig) {
			Fatalf("ref selfcheck: BIP-340 vector %d rejected", i)
		}
		sig[40] ^= 1
		if ref.BIP340Verify(pk, m, sig) {
			Fatalf("ref selfcheck: BIP-340 vector %d accepted after corruption", i)
		}
	}
	// BIP-32 test vector 2 chain m/0 (public derivation): xpub m -> m/0
	// parent pub 03cbcaa9c98c877a26977d00825c956a238e8dddfbd322cce4f74b0b5bd6ace4a7, chain 60499f801b896d83179a4374aeb7822aaeaceaa0db1f85ee3e904c4defbd9689
	ppub, _ := hex.DecodeString("03cbcaa9c98c877a26977d00825c956a238e8dddfbd322cce4f74b0b5bd6ace4a7")
	pchain, _ := hex.DecodeString("60499f801b896d83179a4374aeb7822aaeaceaa0db1f85ee3e904c4defbd9689")
	pp, err := ref.Decompress(ppub)
	if err != nil {
		Fatalf("ref selfcheck: bip32 parent: %v", err)
	}
	ch, cc, err := ref.CKDpub(pp, pchain, 0)
	if err != nil || Hex(ch.Compress()) != "02fc9e5af0ac8d9b3cecfe2a888e2117ba3d089d8585886c9c826b6b22a98d12ea" ||
		Hex(cc) != "f0909affaa7ee7abe5dd4e100598d4dc53cd709d5a5c2cac40e7412f232f7c9c" {
		Fatalf("ref selfcheck: BIP-32 vector 2 m/0 mismatch: %x %x %v", ch.Compress(), cc, err)
	}
	// cross-check with the library on a few scalars
	for _, k := range []int64{1, 2, 3, 7, 1 << 40} {
		kk := big.NewInt(k)
		kk.Mul(kk, big.NewInt(0x1234567))
		lp := LibScalar(kk).ActOnBase()
		if !Pt(lp).Equal(ref.BaseMul(kk)) {
			Fatalf("ref selfcheck: library and reference disagree on %v*G", kk)
		}
	}
}

// InfraMsg marks Fatal as infrastructure trouble for the framework.
func (f Fatal) InfraMsg() string { return f.Msg }

// RoundOf returns the number of the round a handler is currently in (-1 if unknown); harness-side
// introspection used only for probes, never for verdicts.
func RoundOf(h interface{}) (r int) {
	r = -1
	defer func() { _ = recover() }()
	rv := reflect.ValueOf(h)
	for rv.Kind() == reflect.Ptr || rv.Kind() == reflect.Interface {
		rv = rv.Elem()
	}
	f := rv.FieldByName("currentRound")
	if !f.IsValid() {
		f = rv.FieldByName("round")
	}
	if !f.IsValid() {
		return -1
	}
	f = reflect.NewAt(f.Type(), unsafe.Pointer(f.UnsafeAddr())).Elem()
	if n, ok := f.Interface().(interface{ Number() round.Number }); ok {
		return int(n.Number())
	}
	return -1
}

// FinalRound returns the final round number of the handler's protocol (0 if unknown).
func FinalRound(h interface{}) (r int) {
	defer func() { _ = recover() }()
	rv := reflect.ValueOf(h)
	for rv.Kind() == reflect.Ptr || rv.Kind() == reflect.Interface {
		rv = rv.Elem()
	}
	f := rv.FieldByName("currentRound")
	if !f.IsValid() {
		f = rv.FieldByName("round")
	}
	if !f.IsValid() {
		return 0
	}
	f = reflect.NewAt(f.Type(), unsafe.Pointer(f.UnsafeAddr())).Elem()
	if n, ok := f.Interface().(interface{ FinalRoundNumber() round.Number }); ok {
		return int(n.FinalRoundNumber())
	}
	return 0
}

// SetBroadcastHash overwrites a MultiHandler's recorded view hash of a round (used only on the
// *cheater's* handler, to model a consistent liar that adopts the honest parties' view).
func SetBroadcastHash(h interface{}, r int, bv []byte) {
	defer func() { _ = recover() }()
	rv := reflect.ValueOf(h)
	for rv.Kind() == reflect.Ptr || rv.Kind() == reflect.Interface {
		rv = rv.Elem()
	}
	f := rv.FieldByName("broadcastHashes")
	if !f.IsValid() {
		return
	}
	f = reflect.NewAt(f.Type(), unsafe.Pointer(f.UnsafeAddr())).Elem()
	if m, ok := f.Interface().(map[round.Number][]byte); ok {
		m[round.Number(r)] = append([]byte{}, bv...)
	}
}

// ChanClosed polls a handler's outgoing channel once.
func ChanClosed(h interface {
	Listen() <-chan *protocol.Message
}) bool {
	// a closed channel still hands out what was buffered before the close: read on until it is
	// empty (open) or reports the close
	ch := h.Listen()
	for {
		select {
		case _, ok := <-ch:
			if !ok {
				return true
			}
		default:
			return false
		}
	}
}

func stackString() string {
	b := make([]byte, 8192)
	n := runtime.Stack(b, false)
	return string(b[:n])
}

// FSContext returns the Fiat-Shamir context of the handler's current round - the digest of the hash
// state from which every proof challenge, commitment and echo hash of the session is derived - and
// the context as specialised for one party (HashForID). nil if it cannot be read.
func FSContext(h interface{}, id party.ID) (ctx, ctxFor []byte) {
	defer func() { _ = recover() }()
	rv := reflect.ValueOf(h)
	for rv.Kind() == reflect.Ptr || rv.Kind() == reflect.Interface {
		rv = rv.Elem()
	}
	f := rv.FieldByName("currentRound")
	if !f.IsValid() {
		f = rv.FieldByName("round")
	}
	if !f.IsValid() {
		return nil, nil
	}
	f = reflect.NewAt(f.Type(), unsafe.Pointer(f.UnsafeAddr())).Elem()
	if r, ok := f.Interface().(round.Session); ok {
		ctx = r.Hash().Sum()
		if hf, ok := f.Interface().(interface {
			HashForID(party.ID) *hash.Hash
		}); ok {
			ctxFor = hf.HashForID(id).Sum()
		}
	}
	return ctx, ctxFor
}

package scen

import (
	"crypto/sha256"
	"fmt"
	"math/big"
	"os"
	"reflect"
	"sort"

	"github.com/taurusgroup/multi-party-sig/pkg/ecdsa"
	"github.com/taurusgroup/multi-party-sig/pkg/math/curve"
	"github.com/taurusgroup/multi-party-sig/pkg/party"
	"github.com/taurusgroup/multi-party-sig/pkg/protocol"
	"github.com/taurusgroup/multi-party-sig/protocols/cmp"
	"github.com/taurusgroup/multi-party-sig/protocols/doerner"
	"github.com/taurusgroup/multi-party-sig/protocols/example"
	"github.com/taurusgroup/multi-party-sig/verif/fw"
	"github.com/taurusgroup/multi-party-sig/verif/ref"
	"github.com/taurusgroup/multi-party-sig/verif/sim"
)

// Kind enumerates session kinds.
type Kind int

const (
	KXor Kind = iota
	KKeygen
	KRefresh
	KSign
	KPresign       // cmp offline
	KPresignFull   // cmp presign + sign
	KPresignOnline // cmp online from presignatures
	KToy           // synthetic protocol with drawn round shapes (handler-level behaviour)
)

func (k Kind) String() string {
	return [...]string{"xor", "keygen", "refresh", "sign", "presign-offline", "presign-full", "presign-online", "toy"}[k]
}

// Scenario is a fully parameterised session that can be instantiated any number of times
// (reference run, explored run, twin runs) with identical inputs.
type Scenario struct {
	Kind        Kind
	Proto       Proto
	N, T        int
	IDs         []party.ID // all shareholders
	Parts       []party.ID // participants of this session (signers for sign kinds)
	Msg         []byte
	Mat         *Material                        // input material (refresh / sign kinds)
	Pre         map[party.ID]*ecdsa.PreSignature // presign-online
	Y           ref.Pt                           // expected group key (refresh / sign kinds)
	HasY        bool
	SID         []byte
	Name        string
	Shapes      []ToyShape // KToy: what rounds 2.. expect
	ToyNoDigest bool       // KToy: the last round does not compare view digests
}

func (s *Scenario) String() string {
	return fmt.Sprintf("%s/%s n=%d t=%d parts=%d", s.Proto, s.Kind, s.N, s.T, len(s.Parts))
}

// Mk returns the handler constructors of one instance.
func (s *Scenario) Mk() map[party.ID]Mk {
	switch s.Kind {
	case KXor:
		out := map[party.ID]Mk{}
		ids := party.NewIDSlice(s.Parts)
		for _, id := range s.Parts {
			id := id
			out[id] = func() (protocol.Handler, error) {
				return protocol.NewMultiHandler(example.StartXOR(id, ids), s.SID)
			}
		}
		return out
	case KToy:
		return ToyMk(s.Parts, s.Shapes, s.SID, !s.ToyNoDigest)
	case KKeygen:
		return KeygenMk(s.Proto, s.Parts, s.T, s.SID)
	// every instance works on its own deep copy of the input material
	case KRefresh:
		return s.Mat.Clone().RefreshMk(s.SID)
	case KSign:
		return s.Mat.Clone().SignMk(s.Parts, s.Msg, s.SID, SignPlain)
	case KPresignFull:
		return s.Mat.Clone().SignMk(s.Parts, s.Msg, s.SID, SignPresignFull)
	case KPresign:
		return s.Mat.Clone().PresignMk(s.Parts, s.SID)
	case KPresignOnline:
		return s.Mat.Clone().PresignOnlineMk(s.Pre, s.Msg, s.SID)
	}
	Fatalf("scenario: bad kind")
	return nil
}

// ScenarioOpts restricts what DrawScenario may pick.
type ScenarioOpts struct {
	CMPPerMille int
	AllowXor    bool
	MinN        int // minimum number of session participants (multi-party protocols)
	MaxN        int
	NoDoerner   bool
	OnlyMulti   bool // only protocols built on MultiHandler
	Kinds       []Kind
}

// quietRun runs a prerequisite session FIFO without drawing decisions.
func quietRun(c *fw.Ctx, tag string, mk map[party.ID]Mk) *Session {
	s := NewSession(c, tag, mk, nil)
	s.Net.Policy = sim.FIFO{}
	s.Net.Run()
	c.Res.Steps += s.Net.Steps
	return s
}

// PrepMaterial produces key material for a scenario (FIFO keygen for cheap protocols, dealer for CMP).
func PrepMaterial(c *fw.Ctx, p Proto, ids []party.ID, t int, tag string) *Material {
	if p == CMP {
		return DealCMP(c, ids, t, tag)
	}
	s := quietRun(c, tag, KeygenMk(p, ids, t, []byte(c.Label("sid", tag))))
	vals, errs := s.Results()
	if len(errs) > 0 {
		Fatalf("prerequisite keygen failed (%s n=%d t=%d): %v", p, len(ids), t, errs)
	}
	return Collect(p, ids, t, vals)
}

// DrawScenario draws a session kind and all its parameters and prepares its prerequisites.
func DrawScenario(c *fw.Ctx, o ScenarioOpts) *Scenario {
	if o.MaxN == 0 {
		o.MaxN = 5
	}
	if o.MinN < 2 {
		o.MinN = 2
	}
	s := &Scenario{SID: []byte(c.Label("sid", "main"))}
	// protocol
	if o.AllowXor && c.S.Draw(6, "scn-xor") == 5 {
		s.Kind = KXor
		s.Proto = FROST
		s.N = o.MinN + c.S.Draw(o.MaxN-o.MinN+1, "n")
		s.T = s.N - 1
		s.IDs = DrawIDs(c.S, s.N)
		s.Parts = s.IDs
		s.Name = fmt.Sprintf("xor n=%d", s.N)
		return s
	}
	if o.CMPPerMille > 0 && c.S.Bool(o.CMPPerMille, 1000, "proto-cmp") {
		s.Proto = CMP
	} else {
		np := 3
		if o.NoDoerner || o.OnlyMulti {
			np = 2
		}
		s.Proto = Proto(c.S.Draw(np, "proto"))
	}
	kinds := o.Kinds
	if kinds == nil {
		kinds = []Kind{KSign, KKeygen, KRefresh}
		if s.Proto == CMP {
			kinds = []Kind{KSign, KPresign, KPresignFull, KPresignOnline, KKeygen, KRefresh}
		}
	} else {
		var f []Kind
		for _, k := range kinds {
			if k >= KPresign && s.Proto != CMP {
				continue
			}
			f = append(f, k)
		}
		kinds = f
		if len(kinds) == 0 {
			kinds = []Kind{KSign}
		}
	}
	s.Kind = kinds[c.S.Draw(len(kinds), "kind")]
	// VERIF_FORCE_KIND restricts targeted campaigns to one session kind (debugging / confirmation runs)
	if fk := os.Getenv("VERIF_FORCE_KIND"); fk != "" {
		for _, k := range []Kind{KKeygen, KRefresh, KSign, KPresign, KPresignFull, KPresignOnline} {
			if k.String() == fk && (k < KPresign || s.Proto == CMP) {
				s.Kind = k
			}
		}
	}
	maxN := o.MaxN
	if s.Proto == CMP && maxN > 3 {
		maxN = 3
	}
	if s.Proto == Doerner {
		s.N, s.T = 2, 1
	} else {
		min := o.MinN
		if min > maxN {
			maxN = min
		}
		s.N = min + c.S.Draw(maxN-min+1, "n")
		switch s.Kind {
		case KKeygen, KRefresh:
			s.T = s.N - 1 - c.S.Draw(s.N, "t")
		default:
			// signing kinds: the session has |Parts| >= MinN participants among N shareholders
			s.T = s.N - 1 - c.S.Draw(s.N, "t")
			if s.T+1 < o.MinN {
				s.T = o.MinN - 1
			}
		}
	}
	s.IDs = DrawIDs(c.S, s.N)
	s.Parts = s.IDs
	if s.Proto == CMP {
		InstallPrimes(c)
	}
	switch s.Kind {
	case KKeygen:
	case KRefresh:
		s.Mat = PrepMaterial(c, s.Proto, s.IDs, s.T, "prep")
		s.Y, s.HasY = s.Mat.PublicKey(s.IDs[0]), true
	default:
		s.Mat = PrepMaterial(c, s.Proto, s.IDs, s.T, "prep")
		s.Y, s.HasY = s.Mat.PublicKey(s.IDs[0]), true
		min := s.T + 1
		if min < o.MinN {
			min = o.MinN
		}
		s.Parts = DrawSubset(c.S, s.IDs, min)
		if s.Proto == CMP && len(s.Parts) > 3 {
			s.Parts = s.Parts[:3]
		}
		s.Msg = DrawMsg(c)
		if s.Kind == KPresignOnline {
			ps := quietRun(c, "prep-presign", s.Mat.PresignMk(s.Parts, []byte(c.Label("sid", "prep-presign"))))
			vals, errs := ps.Results()
			if len(errs) > 0 {
				Fatalf("prerequisite presign failed: %v", errs)
			}
			s.Pre = map[party.ID]*ecdsa.PreSignature{}
			for id, v := range vals {
				s.Pre[id] = v.(*ecdsa.PreSignature)
			}
		}
	}
	s.Name = s.String()
	return s
}

// presigDigest digests a presignature semantically (map order independent).
func presigDigest(r *ecdsa.PreSignature) string {
	Rb, _ := r.R.MarshalBinary()
	k, _ := r.KShare.MarshalBinary()
	ch, _ := r.ChiShare.MarshalBinary()
	s := fmt.Sprintf("presig:%x:%x:%x:%x", []byte(r.ID), Rb, k, ch)
	var ids []string
	for id := range r.RBar.Points {
		ids = append(ids, string(id))
	}
	sort.Strings(ids)
	enc := func(p curve.Point) []byte {
		if p == nil || (reflect.ValueOf(p).Kind() == reflect.Ptr && reflect.ValueOf(p).IsNil()) {
			return []byte("absent")
		}
		b, _ := p.MarshalBinary()
		return b
	}
	for _, id := range ids {
		s += fmt.Sprintf(":%s=%x,%x", id, enc(r.RBar.Points[party.ID(id)]), enc(r.S.Points[party.ID(id)]))
	}
	var extra []string
	for id := range r.S.Points {
		if _, ok := r.RBar.Points[id]; !ok {
			extra = append(extra, fmt.Sprintf(":S-only:%s=%x", id, enc(r.S.Points[id])))
		}
	}
	sort.Strings(extra)
	for _, e := range extra {
		s += e
	}
	return s
}

func isTypeName(enc string, v interface{}) bool { return enc == fmt.Sprintf("%T", v) }

// ConfigDigest digests a key-material config semantically.
func ConfigDigest(p Proto, v interface{}) (string, bool) {
	m := &Material{Proto: p, IDs: []party.ID{"x"}, Cfg: map[party.ID]interface{}{"x": v}}
	defer func() { _ = recover() }()
	switch v.(type) {
	case nil:
		return "", false
	}
	ok := false
	func() {
		defer func() {
			if recover() != nil {
				ok = false
			}
		}()
		_ = m.Share("x")
		ok = true
	}()
	if !ok {
		return "", false
	}
	s := fmt.Sprintf("cfg:%T:id=%q:Y=%x:x=%x:ck=%x:t=%d", v, m.OwnID("x"), m.PublicKey("x").Compress(), m.Share("x").Bytes(), m.ChainKey("x"), m.Threshold("x"))
	ps := m.PubShares("x")
	var ids []string
	for id := range ps {
		ids = append(ids, id)
	}
	sort.Strings(ids)
	for _, id := range ids {
		s += fmt.Sprintf(":%s=%x", id, ps[id].Compress())
	}
	s += m.AuxTable("x")
	switch c := v.(type) {
	case *cmp.Config:
		// everything else a later session depends on: the RID (part of
		// every session identifier) and the party's own secrets
		s += fmt.Sprintf(":rid=%x", []byte(c.RID))
		if c.ElGamal != nil {
			eb, _ := c.ElGamal.MarshalBinary()
			s += fmt.Sprintf(":eg=%x", eb)
		}
		if c.Paillier != nil {
			s += fmt.Sprintf(":p=%x:q=%x", c.Paillier.P().Bytes(), c.Paillier.Q().Bytes())
		}
	case *doerner.ConfigReceiver:
		if c.Setup != nil {
			b, _ := c.Setup.MarshalBinary()
			s += fmt.Sprintf(":setup=%x", sha256.Sum256(b))
		} else {
			s += ":setup=nil"
		}
	case *doerner.ConfigSender:
		if c.Setup != nil {
			b, _ := c.Setup.MarshalBinary()
			s += fmt.Sprintf(":setup=%x", sha256.Sum256(b))
		} else {
			s += ":setup=nil"
		}
	}
	return s, true
}

// ResultDigest is the semantic digest of any session result.
func ResultDigest(p Proto, v interface{}) string {
	if v == nil {
		return "nil"
	}
	if d, ok := ConfigDigest(p, v); ok {
		return d
	}
	switch r := v.(type) {
	case *ecdsa.PreSignature:
		return presigDigest(r)
	}
	enc, _, _ := SigCheck(p, v, ref.Pt{X: new(big.Int).Set(ref.Gx), Y: new(big.Int).Set(ref.Gy)}, []byte{1})
	if !isTypeName(enc, v) {
		return enc
	}
	if b, ok := v.(interface{ MarshalBinary() ([]byte, error) }); ok {
		bb, _ := b.MarshalBinary()
		return fmt.Sprintf("%T:%x", v, bb)
	}
	return fmt.Sprintf("%T:%x", v, v)
}

// DrawToy draws a toy-protocol scenario: minN..4 parties, 1..5 message rounds of drawn shape.
func DrawToy(c *fw.Ctx, minN int) *Scenario {
	n := minN + c.S.Draw(5-minN, "toy-n")
	ids := DrawIDs(c.S, n)
	rounds := 1 + c.S.Draw(5, "toy-rounds")
	var shapes []ToyShape
	name := ""
	for i := 0; i < rounds; i++ {
		var sh ToyShape
		switch c.S.Draw(4, "toy-shape") {
		case 0:
			sh = ToyShape{P2P: true}
		case 1:
			sh = ToyShape{Bcast: true}
		case 2:
			sh = ToyShape{Bcast: true, Reliable: true}
		case 3:
			sh = ToyShape{Bcast: true, Reliable: c.S.Draw(2, "toy-reliable") == 1, P2P: true}
		}
		shapes = append(shapes, sh)
		name += "/" + sh.String()
	}
	return &Scenario{Kind: KToy, Proto: FROST, N: n, T: n - 1, IDs: ids, Parts: ids, SID: []byte(c.Label("sid", "main")), Shapes: shapes, Name: fmt.Sprintf("toy n=%d rounds=%s", n, name)}
}

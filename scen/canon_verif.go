//go:build verif

package scen

import "github.com/taurusgroup/multi-party-sig/pkg/protocol"

// Go's map iteration order is one of the sources of nondeterminism the simulator owns: handlers emit
// map-bearing messages with sorted keys (hook in pkg/protocol, build tag verif).
func init() { protocol.SimCanonicalEncoding = true }

package scen

import (
	"fmt"

	"github.com/fxamacker/cbor/v2"
	"github.com/taurusgroup/multi-party-sig/pkg/ecdsa"
	"github.com/taurusgroup/multi-party-sig/protocols/cmp"
	"github.com/taurusgroup/multi-party-sig/protocols/doerner"
	"github.com/taurusgroup/multi-party-sig/protocols/frost"
)

// Persist serialises a result object with the encoder the library documents for its type.
func Persist(v interface{}) ([]byte, error) {
	switch c := v.(type) {
	case *cmp.Config:
		return c.MarshalBinary()
	case *frost.Config, *frost.TaprootConfig, *doerner.ConfigReceiver, *doerner.ConfigSender, *ecdsa.PreSignature, *ecdsa.Signature, ecdsa.Signature:
		return cbor.Marshal(c)
	}
	return nil, fmt.Errorf("persist: unsupported type %T", v)
}

// Restore deserialises bytes into a fresh object of the same type as like, using the library's
// group-aware Empty* constructors. Panics are converted into a *PanicError.
func Restore(like interface{}, b []byte) (out interface{}, err error) {
	defer func() {
		if p := recover(); p != nil {
			err = &PanicError{Value: fmt.Sprint(p), Stack: stackString()}
			out = nil
		}
	}()
	switch like.(type) {
	case *cmp.Config:
		c := cmp.EmptyConfig(Group)
		err = c.UnmarshalBinary(b)
		return c, err
	case *frost.Config:
		c := frost.EmptyConfig(Group)
		err = cbor.Unmarshal(b, c)
		return c, err
	case *frost.TaprootConfig:
		c := &frost.TaprootConfig{}
		err = cbor.Unmarshal(b, c)
		return c, err
	case *doerner.ConfigReceiver:
		c := doerner.EmptyConfigReceiver(Group)
		err = cbor.Unmarshal(b, c)
		return c, err
	case *doerner.ConfigSender:
		c := doerner.EmptyConfigSender(Group)
		err = cbor.Unmarshal(b, c)
		return c, err
	case *ecdsa.PreSignature:
		c := ecdsa.EmptyPreSignature(Group)
		err = cbor.Unmarshal(b, c)
		return c, err
	case *ecdsa.Signature, ecdsa.Signature:
		s := ecdsa.EmptySignature(Group)
		err = cbor.Unmarshal(b, &s)
		return &s, err
	}
	return nil, fmt.Errorf("restore: unsupported type %T", like)
}

// PanicError reports a panic inside a codec.
type PanicError struct {
	Value string
	Stack string
}

func (p *PanicError) Error() string { return "panic: " + p.Value }

package scen

import (
	"bytes"
	"fmt"
	"github.com/taurusgroup/multi-party-sig/verif/mut"

	"github.com/fxamacker/cbor/v2"
	"github.com/taurusgroup/multi-party-sig/pkg/ecdsa"
	"github.com/taurusgroup/multi-party-sig/protocols/cmp"
	"github.com/taurusgroup/multi-party-sig/protocols/doerner"
	"github.com/taurusgroup/multi-party-sig/protocols/frost"
)

// Persist serialises a result object with the encoder the library documents for its type.
func Persist(v interface{}) ([]byte, error) {
	var b []byte
	var err error
	switch c := v.(type) {
	case *cmp.Config:
		b, err = c.MarshalBinary()
	case *frost.Config, *frost.TaprootConfig, *doerner.ConfigReceiver, *doerner.ConfigSender, *ecdsa.PreSignature, *ecdsa.Signature, ecdsa.Signature:
		b, err = cbor.Marshal(c)
	default:
		return nil, fmt.Errorf("persist: unsupported type %T", v)
	}
	if err != nil {
		return nil, err
	}
	// the sorted image must restore to the same object (the structure-aware decoder may, very
	// rarely, mistake random bytes for a nested encoding); otherwise keep what the library wrote
	if cb := canonicalImage(b); !bytes.Equal(cb, b) {
		if r, rerr := Restore(v, cb); rerr == nil {
			p := protoOfResult(v)
			if ResultDigest(p, r) == ResultDigest(p, v) {
				return cb, nil
			}
		}
	}
	return b, nil
}

func protoOfResult(v interface{}) Proto {
	switch v.(type) {
	case *frost.Config:
		return FROST
	case *frost.TaprootConfig:
		return FROSTTaproot
	case *doerner.ConfigReceiver, *doerner.ConfigSender:
		return Doerner
	}
	return CMP
}

// canonicalImage re-encodes a stored image with its map keys sorted. The library writes Go maps (the
// frost share tables, a presignature's point maps) in Go's random iteration order, so the same object
// has many byte images; a fault "at bit k" must hit the same field in every execution of a case, so
// the simulated disk always holds one particular of those images (a sorted one, which the library
// could have written itself).
func canonicalImage(b []byte) (out []byte) {
	out = b
	t, err := mut.Decode(b)
	if err != nil {
		return b
	}
	defer func() {
		if recover() != nil {
			out = b
		}
	}()
	if enc := mut.Encode(t); len(enc) == len(b) {
		return enc
	}
	return b
}

// Restore deserialises bytes into a fresh object of the same type as like, using the library's
// group-aware Empty* constructors. Panics are converted into a *PanicError.
func Restore(like interface{}, b []byte) (out interface{}, err error) {
	defer func() {
		if p := recover(); p != nil {
			err = &PanicError{Value: fmt.Sprint(p), Stack: stackString()}
			out = nil
		}
	}()
	switch like.(type) {
	case *cmp.Config:
		c := cmp.EmptyConfig(Group)
		err = c.UnmarshalBinary(b)
		return c, err
	case *frost.Config:
		c := frost.EmptyConfig(Group)
		err = cbor.Unmarshal(b, c)
		return c, err
	case *frost.TaprootConfig:
		c := &frost.TaprootConfig{}
		err = cbor.Unmarshal(b, c)
		return c, err
	case *doerner.ConfigReceiver:
		c := doerner.EmptyConfigReceiver(Group)
		err = cbor.Unmarshal(b, c)
		return c, err
	case *doerner.ConfigSender:
		c := doerner.EmptyConfigSender(Group)
		err = cbor.Unmarshal(b, c)
		return c, err
	case *ecdsa.PreSignature:
		c := ecdsa.EmptyPreSignature(Group)
		err = cbor.Unmarshal(b, c)
		return c, err
	case *ecdsa.Signature, ecdsa.Signature:
		s := ecdsa.EmptySignature(Group)
		err = cbor.Unmarshal(b, &s)
		return &s, err
	}
	return nil, fmt.Errorf("restore: unsupported type %T", like)
}

// PanicError reports a panic inside a codec.
type PanicError struct {
	Value string
	Stack string
}

func (p *PanicError) Error() string { return "panic: " + p.Value }

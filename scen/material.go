package scen

import (
	"fmt"
	"math/big"
	"sort"

	"github.com/taurusgroup/multi-party-sig/pkg/ecdsa"
	"github.com/taurusgroup/multi-party-sig/pkg/math/curve"
	"github.com/taurusgroup/multi-party-sig/pkg/party"
	"github.com/taurusgroup/multi-party-sig/pkg/protocol"
	"github.com/taurusgroup/multi-party-sig/pkg/taproot"
	"github.com/taurusgroup/multi-party-sig/protocols/cmp"
	"github.com/taurusgroup/multi-party-sig/protocols/cmp/config"
	cmppresign "github.com/taurusgroup/multi-party-sig/protocols/cmp/presign"
	"github.com/taurusgroup/multi-party-sig/protocols/doerner"
	"github.com/taurusgroup/multi-party-sig/protocols/frost"
	"github.com/taurusgroup/multi-party-sig/verif/ref"
)

// Proto enumerates the key-material families.
type Proto int

const (
	FROST Proto = iota
	FROSTTaproot
	Doerner
	CMP
)

func (p Proto) String() string {
	return [...]string{"frost", "frost-taproot", "doerner", "cmp"}[p]
}

var Group = curve.Secp256k1{}

// Material is the key material of all parties of one epoch: the configs each party holds.
type Material struct {
	Proto Proto
	IDs   []party.ID // sorted
	T     int
	Cfg   map[party.ID]interface{}
}

// Mk constructs a handler for one party.
type Mk func() (protocol.Handler, error)

func sortedIDs(ids []party.ID) []party.ID {
	out := append([]party.ID{}, ids...)
	sort.Slice(out, func(i, j int) bool { return out[i] < out[j] })
	return out
}

// KeygenMk returns the handler constructors of a key generation session.
func KeygenMk(p Proto, ids []party.ID, t int, sid []byte) map[party.ID]Mk {
	out := map[party.ID]Mk{}
	for i, id := range ids {
		id := id
		i := i
		switch p {
		case FROST:
			out[id] = mh(func() protocol.StartFunc { return frost.Keygen(Group, id, ids, t) }, sid)
		case FROSTTaproot:
			out[id] = mh(func() protocol.StartFunc { return frost.KeygenTaproot(id, ids, t) }, sid)
		case CMP:
			out[id] = mh(func() protocol.StartFunc { return cmp.Keygen(Group, id, ids, t, nil) }, sid)
		case Doerner:
			other := ids[1-i]
			recv := i == 0
			out[id] = th(func() protocol.StartFunc { return doerner.Keygen(Group, recv, id, other, nil) }, sid, recv)
		}
	}
	return out
}

// RefreshMk returns the constructors of a refresh session on existing material (subset lets callers
// restrict which parties take part / supply stale configs by editing m.Cfg beforehand).
func (m *Material) RefreshMk(sid []byte) map[party.ID]Mk {
	out := map[party.ID]Mk{}
	for i, id := range m.IDs {
		id := id
		i := i
		c := m.Cfg[id]
		switch m.Proto {
		case FROST:
			out[id] = mh(func() protocol.StartFunc { return frost.Refresh(c.(*frost.Config), m.IDs) }, sid)
		case FROSTTaproot:
			out[id] = mh(func() protocol.StartFunc { return frost.RefreshTaproot(c.(*frost.TaprootConfig), m.IDs) }, sid)
		case CMP:
			out[id] = mh(func() protocol.StartFunc { return cmp.Refresh(c.(*cmp.Config), nil) }, sid)
		case Doerner:
			other := m.IDs[1-i]
			if i == 0 {
				out[id] = th(func() protocol.StartFunc { return doerner.RefreshReceiver(c.(*doerner.ConfigReceiver), id, other, nil) }, sid, true)
			} else {
				out[id] = th(func() protocol.StartFunc { return doerner.RefreshSender(c.(*doerner.ConfigSender), id, other, nil) }, sid, false)
			}
		}
	}
	return out
}

// SignVariant selects among the CMP signing flavours.
type SignVariant int

const (
	SignPlain SignVariant = iota
	SignPresignFull
)

// SignMk returns constructors for a signing session among signers.
func (m *Material) SignMk(signers []party.ID, msg []byte, sid []byte, variant SignVariant) map[party.ID]Mk {
	out := map[party.ID]Mk{}
	signers = sortedIDs(signers)
	for _, id := range signers {
		id := id
		c := m.Cfg[id]
		switch m.Proto {
		case FROST:
			out[id] = mh(func() protocol.StartFunc { return frost.Sign(c.(*frost.Config), signers, msg) }, sid)
		case FROSTTaproot:
			out[id] = mh(func() protocol.StartFunc { return frost.SignTaproot(c.(*frost.TaprootConfig), signers, msg) }, sid)
		case CMP:
			if variant == SignPresignFull {
				out[id] = mh(func() protocol.StartFunc { return cmppresign.StartPresign(c.(*cmp.Config), signers, msg, nil) }, sid)
			} else {
				out[id] = mh(func() protocol.StartFunc { return cmp.Sign(c.(*cmp.Config), signers, msg, nil) }, sid)
			}
		case Doerner:
			var other party.ID
			for _, o := range m.IDs {
				if o != id {
					other = o
				}
			}
			switch cc := c.(type) {
			case *doerner.ConfigReceiver:
				out[id] = th(func() protocol.StartFunc { return doerner.SignReceiver(cc, id, other, msg, nil) }, sid, true)
			case *doerner.ConfigSender:
				out[id] = th(func() protocol.StartFunc { return doerner.SignSender(cc, id, other, msg, nil) }, sid, true)
			}
		}
	}
	return out
}

// PresignMk: CMP offline presign.
func (m *Material) PresignMk(signers []party.ID, sid []byte) map[party.ID]Mk {
	out := map[party.ID]Mk{}
	signers = sortedIDs(signers)
	for _, id := range signers {
		c := m.Cfg[id].(*cmp.Config)
		out[id] = mh(func() protocol.StartFunc { return cmp.Presign(c, signers, nil) }, sid)
	}
	return out
}

// PresignOnlineMk: CMP online phase from presignatures.
func (m *Material) PresignOnlineMk(pre map[party.ID]*ecdsa.PreSignature, msg []byte, sid []byte) map[party.ID]Mk {
	out := map[party.ID]Mk{}
	for id, ps := range pre {
		c := m.Cfg[id].(*cmp.Config)
		ps := ps
		out[id] = mh(func() protocol.StartFunc { return cmp.PresignOnline(c, ps, msg, nil) }, sid)
	}
	return out
}

// ---- views of a config through the reference types ----

// PublicKey returns the group key party id reports (for taproot: the even-Y lift of the x-only key).
func (m *Material) PublicKey(id party.ID) ref.Pt {
	switch c := m.Cfg[id].(type) {
	case *frost.Config:
		return Pt(c.PublicKey)
	case *frost.TaprootConfig:
		if len(c.PublicKey) != 32 {
			return ref.Pt{Inf: true}
		}
		p, err := ref.LiftX(new(big.Int).SetBytes(c.PublicKey))
		if err != nil {
			return ref.Pt{Inf: true}
		}
		return p
	case *cmp.Config:
		// reference Lagrange combination of the public shares (independent of Config.PublicPoint)
		sh := map[string]ref.Pt{}
		for j, pub := range c.Public {
			sh[string(j)] = Pt(pub.ECDSA)
		}
		return ref.InterpolatePoint(sh)
	case *doerner.ConfigReceiver:
		return Pt(c.Public)
	case *doerner.ConfigSender:
		return Pt(c.Public)
	}
	Fatalf("PublicKey: unexpected config %T", m.Cfg[id])
	return ref.Pt{}
}

// Share returns the party's secret share.
func (m *Material) Share(id party.ID) *big.Int {
	switch c := m.Cfg[id].(type) {
	case *frost.Config:
		return Sc(c.PrivateShare)
	case *frost.TaprootConfig:
		return Sc(c.PrivateShare)
	case *cmp.Config:
		return Sc(c.ECDSA)
	case *doerner.ConfigReceiver:
		return Sc(c.SecretShare)
	case *doerner.ConfigSender:
		return Sc(c.SecretShare)
	}
	Fatalf("Share: unexpected config %T", m.Cfg[id])
	return nil
}

// PubShares returns the table of public shares party id holds (nil for Doerner, which has none).
func (m *Material) PubShares(id party.ID) map[string]ref.Pt {
	out := map[string]ref.Pt{}
	switch c := m.Cfg[id].(type) {
	case *frost.Config:
		if c.VerificationShares == nil {
			return out
		}
		for j, p := range c.VerificationShares.Points {
			out[string(j)] = Pt(p)
		}
	case *frost.TaprootConfig:
		for j, p := range c.VerificationShares {
			out[string(j)] = Pt(p)
		}
	case *cmp.Config:
		for j, p := range c.Public {
			out[string(j)] = Pt(p.ECDSA)
		}
	default:
		return nil
	}
	return out
}

// AuxTable is a digest of the auxiliary public keys a CMP party holds for every party.
func (m *Material) AuxTable(id party.ID) string {
	c, ok := m.Cfg[id].(*cmp.Config)
	if !ok {
		return ""
	}
	s := ""
	for _, j := range sortedIDs(c.PartyIDs()) {
		p := c.Public[j]
		eg, _ := p.ElGamal.MarshalBinary()
		s += fmt.Sprintf("%s:%x:%x:%x:%x;", j, eg, p.Paillier.N().Bytes(), p.Pedersen.S().Bytes(), p.Pedersen.T().Bytes())
	}
	return s
}

// ChainKey returns the party's chain key.
func (m *Material) ChainKey(id party.ID) []byte {
	switch c := m.Cfg[id].(type) {
	case *frost.Config:
		return c.ChainKey
	case *frost.TaprootConfig:
		return c.ChainKey
	case *cmp.Config:
		return c.ChainKey
	case *doerner.ConfigReceiver:
		return c.ChainKey
	case *doerner.ConfigSender:
		return c.ChainKey
	}
	return nil
}

// Threshold as recorded in the party's config (-1 if the type has none).
func (m *Material) Threshold(id party.ID) int {
	switch c := m.Cfg[id].(type) {
	case *frost.Config:
		return c.Threshold
	case *frost.TaprootConfig:
		return c.Threshold
	case *cmp.Config:
		return c.Threshold
	}
	return -1
}

// DeriveChild derives child i at every party (library code); returns error per party.
func (m *Material) DeriveChild(i uint32) (*Material, map[party.ID]error) {
	out := &Material{Proto: m.Proto, IDs: m.IDs, T: m.T, Cfg: map[party.ID]interface{}{}}
	errs := map[party.ID]error{}
	for _, id := range m.IDs {
		var nc interface{}
		var err error
		switch c := m.Cfg[id].(type) {
		case *frost.Config:
			nc, err = c.DeriveChild(i)
		case *frost.TaprootConfig:
			nc, err = c.DeriveChild(i)
		case *cmp.Config:
			nc, err = c.DeriveBIP32(i)
		case *doerner.ConfigReceiver:
			nc, err = c.DeriveBIP32(i)
		case *doerner.ConfigSender:
			nc, err = c.DeriveBIP32(i)
		}
		if err != nil {
			errs[id] = err
			continue
		}
		out.Cfg[id] = nc
	}
	return out, errs
}

// SigCheck judges a signing result with the reference verifier. Y is the expected group key.
// It returns a canonical encoding of the signature (for equality across parties) and validity.
func SigCheck(p Proto, res interface{}, Y ref.Pt, msg []byte) (enc string, ok bool, why string) {
	switch s := res.(type) {
	case *ecdsa.Signature:
		if s == nil || s.R == nil || s.S == nil {
			return "nil", false, "nil signature fields"
		}
		R := Pt(s.R)
		if R.Inf {
			return "R=inf", false, "R is identity"
		}
		r := new(big.Int).Mod(R.X, ref.Q)
		sv := Sc(s.S)
		enc = fmt.Sprintf("ecdsa:%x:%x", R.Compress(), sv.Bytes())
		return enc, ref.ECDSAVerify(Y, msg, r, sv), "SEC1 ECDSA verification on (R.x mod q, s)"
	case taproot.Signature:
		enc = fmt.Sprintf("bip340:%x", []byte(s))
		if Y.Inf {
			return enc, false, "public key not liftable"
		}
		pk := make([]byte, 32)
		Y.X.FillBytes(pk)
		return enc, ref.BIP340Verify(pk, msg, s), "BIP-340 verification"
	case frost.Signature:
		z := UnexportedField(s, "z").Interface().(curve.Scalar)
		if s.R == nil || z == nil {
			return "nil", false, "nil signature fields"
		}
		R := Pt(s.R)
		zz := Sc(z)
		enc = fmt.Sprintf("schnorr:%x:%x", R.Compress(), zz.Bytes())
		return enc, ref.SchnorrVerify(Y, R, zz, msg), "Schnorr verification z*G == R + c*Y"
	}
	return fmt.Sprintf("%T", res), false, fmt.Sprintf("unexpected result type %T", res)
}

// FreezeShare returns a deep copy of a config of the same family carrying the given secret share
// (value snapshot that later in-place mutation by the library cannot affect).
func FreezeShare(p Proto, cfg interface{}, share *big.Int) interface{} {
	s := LibScalar(share)
	cp := func(pt curve.Point) curve.Point { return LibPoint(Pt(pt)) }
	switch c := cfg.(type) {
	case *frost.Config:
		vs := map[party.ID]curve.Point{}
		for k, v := range c.VerificationShares.Points {
			vs[k] = cp(v)
		}
		return &frost.Config{ID: c.ID, Threshold: c.Threshold, PrivateShare: s, PublicKey: cp(c.PublicKey), ChainKey: append([]byte{}, c.ChainKey...), VerificationShares: party.NewPointMap(vs)}
	case *frost.TaprootConfig:
		cc := c.Clone()
		cc.PrivateShare = s.(*curve.Secp256k1Scalar)
		for k, v := range c.VerificationShares {
			cc.VerificationShares[k] = cp(v).(*curve.Secp256k1Point)
		}
		return cc
	case *cmp.Config:
		cc := *c
		cc.ECDSA = s
		pub := map[party.ID]*config.Public{}
		for k, v := range c.Public {
			vv := *v
			vv.ECDSA = cp(v.ECDSA)
			pub[k] = &vv
		}
		cc.Public = pub
		return &cc
	case *doerner.ConfigReceiver:
		cc := *c
		cc.SecretShare = s
		cc.Public = cp(c.Public)
		return &cc
	case *doerner.ConfigSender:
		cc := *c
		cc.SecretShare = s
		cc.Public = cp(c.Public)
		return &cc
	}
	Fatalf("FreezeShare: unexpected %T", cfg)
	return nil
}

// Clone deep-copies the material (every session instance gets its own config objects).
func (m *Material) Clone() *Material {
	out := &Material{Proto: m.Proto, IDs: m.IDs, T: m.T, Cfg: map[party.ID]interface{}{}}
	for id, cfg := range m.Cfg {
		out.Cfg[id] = FreezeShare(m.Proto, cfg, m.Share(id))
	}
	return out
}

// OwnID returns the identifier recorded inside the party's config ("" if the type has none).
func (m *Material) OwnID(id party.ID) party.ID {
	switch c := m.Cfg[id].(type) {
	case *frost.Config:
		return c.ID
	case *frost.TaprootConfig:
		return c.ID
	case *cmp.Config:
		return c.ID
	}
	return ""
}

// ---- start-function reuse ----
//
// An application may build a protocol.StartFunc once and hand it to NewMultiHandler again when it
// retries a session. Constructors built inside Reusing() do exactly that: every call of the same Mk
// passes the SAME StartFunc value to a new handler.

var reuseStart bool

// Reusing builds handler constructors whose start functions are created once and reused.
func Reusing(build func() map[party.ID]Mk) map[party.ID]Mk {
	reuseStart = true
	defer func() { reuseStart = false }()
	return build()
}

func startOnce(mk func() protocol.StartFunc) func() protocol.StartFunc {
	reuse := reuseStart
	var cached protocol.StartFunc
	return func() protocol.StartFunc {
		if !reuse {
			return mk()
		}
		if cached == nil {
			cached = mk()
		}
		return cached
	}
}

func mh(mk func() protocol.StartFunc, sid []byte) Mk {
	sf := startOnce(mk)
	return func() (protocol.Handler, error) { return protocol.NewMultiHandler(sf(), sid) }
}

func th(mk func() protocol.StartFunc, sid []byte, leader bool) Mk {
	sf := startOnce(mk)
	return func() (protocol.Handler, error) { return protocol.NewTwoPartyHandler(sf(), sid, leader) }
}

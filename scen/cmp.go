package scen

import (
	"crypto/rand"
	"encoding/json"
	"math/big"
	"os"
	"sync"

	"github.com/cronokirby/saferith"
	"github.com/taurusgroup/multi-party-sig/internal/types"
	"github.com/taurusgroup/multi-party-sig/pkg/math/polynomial"
	"github.com/taurusgroup/multi-party-sig/pkg/math/sample"
	"github.com/taurusgroup/multi-party-sig/pkg/paillier"
	"github.com/taurusgroup/multi-party-sig/pkg/party"
	"github.com/taurusgroup/multi-party-sig/pkg/pedersen"
	"github.com/taurusgroup/multi-party-sig/protocols/cmp"
	"github.com/taurusgroup/multi-party-sig/protocols/cmp/config"
	"github.com/taurusgroup/multi-party-sig/verif/fw"
)

var (
	primesOnce sync.Once
	primePairs [][2]*saferith.Nat
	primeNext  int
)

func loadPrimes() {
	primesOnce.Do(func() {
		b, err := os.ReadFile("/verif/fixtures/primes.json")
		if err != nil {
			Fatalf("fixtures: %v", err)
		}
		var raw [][2]string
		if err := json.Unmarshal(b, &raw); err != nil {
			Fatalf("fixtures: %v", err)
		}
		for i, pr := range raw {
			var pair [2]*saferith.Nat
			for k := 0; k < 2; k++ {
				x, ok := new(big.Int).SetString(pr[k], 16)
				if !ok {
					Fatalf("fixtures: bad hex in pair %d", i)
				}
				half := new(big.Int).Rsh(x, 1)
				if !x.ProbablyPrime(20) || !half.ProbablyPrime(20) {
					Fatalf("fixtures: pair %d is not a safe prime", i)
				}
				pair[k] = new(saferith.Nat).SetBig(x, x.BitLen())
				if err := paillier.ValidatePrime(pair[k]); err != nil {
					Fatalf("fixtures: pair %d rejected by ValidatePrime: %v", i, err)
				}
			}
			primePairs = append(primePairs, pair)
		}
		if len(primePairs) < 8 {
			Fatalf("fixtures: too few prime pairs")
		}
	})
}

// InstallPrimes points the (verif-tagged) prime hook at the fixture; successive keys of a case use
// successive pairs starting from a seed-drawn offset, so parties get distinct moduli.
func InstallPrimes(c *fw.Ctx) {
	loadPrimes()
	// The pair is chosen by bytes read from the *calling party's* randomness stream, so that the
	// choice is a function of that party's stream alone (independent of delivery order).
	sample.PrimeSource = func() (p, q *saferith.Nat) {
		var b [4]byte
		_, _ = rand.Read(b[:])
		k := (int(b[0])<<16 | int(b[1])<<8 | int(b[2])) % len(primePairs)
		pr := primePairs[k]
		return new(saferith.Nat).SetNat(pr[0]), new(saferith.Nat).SetNat(pr[1])
	}
}

// DealCMP builds CMP configs directly (trusted dealer: same construction as the repository's own
// internal/test.GenerateConfig, but for arbitrary identifiers). Used where a world needs CMP key
// material but is not about key generation.
func DealCMP(c *fw.Ctx, ids []party.ID, t int, label string) *Material {
	InstallPrimes(c)
	old := c.R.Use(nil)
	defer c.R.Use(old)
	c.R.ResetHarness(c.Label("dealer", label))
	group := Group
	src := rand.Reader
	ids = sortedIDs(ids)
	configs := map[party.ID]interface{}{}
	public := make(map[party.ID]*config.Public, len(ids))
	f := polynomial.NewPolynomial(group, t, sample.Scalar(src, group))
	rid, err := types.NewRID(src)
	if err != nil {
		Fatalf("dealer: %v", err)
	}
	chainKey, err := types.NewRID(src)
	if err != nil {
		Fatalf("dealer: %v", err)
	}
	for _, pid := range ids {
		sk := paillier.NewSecretKey(nil)
		s, tt, _ := sample.Pedersen(src, sk.Phi(), sk.N())
		ped := pedersen.New(sk.Modulus(), s, tt)
		eg := sample.Scalar(src, group)
		x := f.Evaluate(pid.Scalar(group))
		configs[pid] = &cmp.Config{
			Group: group, ID: pid, Threshold: t, ECDSA: x, ElGamal: eg, Paillier: sk,
			RID: rid.Copy(), ChainKey: chainKey.Copy(), Public: public,
		}
		public[pid] = &config.Public{ECDSA: x.ActOnBase(), ElGamal: eg.ActOnBase(), Paillier: sk.PublicKey, Pedersen: ped}
	}
	// every party holds its own copy of the public table
	for _, pid := range ids {
		cp := make(map[party.ID]*config.Public, len(public))
		for k, v := range public {
			vv := *v
			cp[k] = &vv
		}
		configs[pid].(*cmp.Config).Public = cp
	}
	return &Material{Proto: CMP, IDs: ids, T: t, Cfg: configs}
}

#!/bin/bash
# tools_seed.sh <worktree> <seed-id> <property> <demo-pkg> <demo-run-regex> [checks...]
# Verifies a seeded change produced in a scratch worktree (builds, existing suite passes, demo fails
# with / passes without), stores it under /verif/seeded/<seed-id>/, then applies it to /repo, runs
# the named checks and undoes it.
set -u
WT=$1; SID=$2; PROP=$3; DPKG=$4; DRUN=$5; shift 5
export GOFLAGS=-mod=mod GOPROXY=off GOSUMDB=off GOTOOLCHAIN=local
OUT=/verif/seeded/$SID; mkdir -p $OUT/demo
cd $WT || exit 2
git diff > $OUT/patch.diff
for f in $(git ls-files --others --exclude-standard); do mkdir -p $OUT/demo/$(dirname $f); cp $f $OUT/demo/$f; done
echo "== patch: $(git diff --stat | tail -1)"
echo "== build"; go build ./... && go vet $(git diff --name-only | xargs -n1 dirname | sort -u | sed 's#^#./#') 2>&1 | tail -3
echo "== demo WITH change (must fail)"; go test ${DEMO_FLAGS:-} -count=1 -run "$DRUN" $DPKG > $OUT/demo_with.log 2>&1; rc_with=$?; tail -3 $OUT/demo_with.log
# (no git stash: the stash is shared by all worktrees of a repository)
git apply -R $OUT/patch.diff
echo "== demo WITHOUT change (must pass)"; go test ${DEMO_FLAGS:-} -count=1 -run "$DRUN" $DPKG > $OUT/demo_without.log 2>&1; rc_without=$?; tail -2 $OUT/demo_without.log
git apply $OUT/patch.diff
echo "== existing suite WITH change (must pass; demo files skipped)"
go test -vet=off -count=1 -timeout 25m -skip 'ZZ|zz|Demo|DEMO' $(go list ./... | grep -v zzdemo) > $OUT/suite_with.log 2>&1; rc_suite=$?
grep -v "^ok\|no test files" $OUT/suite_with.log | head -5
echo "rc_with=$rc_with rc_without=$rc_without rc_suite=$rc_suite"
cd /verif
res=""
if [ $# -gt 0 ]; then
  git -C /repo apply $OUT/patch.diff || { echo "PATCH DOES NOT APPLY to /repo"; exit 2; }
  for chk in "$@"; do
    rm -rf /verif/replays
    ./check $chk quick > $OUT/check_$chk.log 2>&1; rc=$?
    sigs=$(grep "signature:" $OUT/check_$chk.log | sort | uniq -c | sort -rn | head -5 | tr '\n' ';')
    echo "== ./check $chk quick -> rc=$rc  $sigs"
    res="$res $chk:rc=$rc"
  done
  git -C /repo checkout -- .
  git -C /repo status --short | head -3
fi
echo "$SID prop=$PROP demo_with=$rc_with demo_without=$rc_without suite=$rc_suite checks:$res" >> /verif/seeded/RESULTS.txt

// Package c18meta holds the C18 check's metadata, shared by the poolsim test binary (which runs
// the cases under go1.26.8 / testing/synctest) and the driver (which aggregates and reports).
package c18meta

import "github.com/taurusgroup/multi-party-sig/verif/fw"

// Def returns the property definition without a Run function.
func Def() *fw.PropDef {
	return &fw.PropDef{
		ID: "C18", Level: "exploration", Engine: "poolsim",
		Cases: func(tier string) int {
			if tier == "thorough" {
				return 150000
			}
			return 6000
		},
		Rule: "one case = one world: a pool with W in 1..4 workers and one caller issuing a seeded sequence of 1..5 Parallelize/Search calls (count 0..5, task bodies with 0..3 internal yields, search attempts failing by a seeded pattern), followed by a probe call of W tasks that must all run at the same time. Every goroutine parks at each verif-tagged yield point of pkg/pool (around every atomic operation and channel operation); the scheduler waits for quiescence (testing/synctest) and releases exactly one parked goroutine chosen by the seed. Invariants: every call returns; Parallelize = [f(0)..f(n-1)], Search returns count non-nil results; afterwards all W workers can take a task simultaneously (none is left blocked on its notification); a nil pool gives the same results; TearDown leaves no worker goroutine. Non-trivial = at least one scheduling decision was taken. Distinct = decision trace; distinct_states = distinct (op index, multiset of parked goroutines' canonical keys).",
		Assumptions: []string{
			"one caller goroutine per pool (the documented usage)",
			"windows in which two goroutines run between yields contain no shared-memory action (a yield follows every wake-up and brackets every atomic operation), so an execution is a function of the decision trace",
			"goroutines are identified canonically by (yield point, task they are executing); goroutines with equal keys are interchangeable",
		},
		RealStub: map[string][]string{
			"real": {"pkg/pool (worker, workerSearch, Search, Parallelize, TearDown, nil-pool paths)"},
			"stub": {"goroutine scheduler (cooperative, seeded, via verif yield hooks + synctest quiescence)", "task bodies (synthetic, with seeded durations)"},
		},
	}
}

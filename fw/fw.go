// Package fw is the check framework: case context, results, property registry.
package fw

import (
	"fmt"
	"sort"

	"github.com/taurusgroup/multi-party-sig/verif/sim"
)

// Violation is one property violation found in a case.
type Violation struct {
	Sig    string `json:"sig"`    // stable signature (used for known findings / minimisation)
	Detail string `json:"detail"` // human description
}

// CaseResult is what one simulated case reports.
type CaseResult struct {
	Prop       string                 `json:"prop"`
	Case       int                    `json:"case"`
	Desc       string                 `json:"desc"`             // scenario descriptor
	NonTrivial bool                   `json:"nontrivial"`       // by the property's stated rule
	DistinctID string                 `json:"distinct"`         // what makes this case distinct (e.g. delivery-sequence hash)
	Steps      int                    `json:"steps"`            // logical steps simulated
	Faults     map[string]int         `json:"faults,omitempty"` // fault kinds that actually fired
	Probes     map[string]int         `json:"probes,omitempty"`
	States     []string               `json:"states,omitempty"` // state digests reached
	Violations []Violation            `json:"violations,omitempty"`
	Sample     map[string]interface{} `json:"sample,omitempty"`
	Decisions  []int                  `json:"decisions,omitempty"`
	Log        []string               `json:"log,omitempty"`
	Infra      string                 `json:"infra,omitempty"` // infrastructure trouble (exit 2)
	TraceHash  string                 `json:"trace"`
	// HangCandidate: a call exceeded the watchdog bound in a loaded worker; to be confirmed alone.
	HangCandidate bool `json:"hang_candidate,omitempty"`
}

// Ctx is handed to a property's Run function for one case.
type Ctx struct {
	Prop    string
	Tier    string
	Seed    int64
	Case    int
	CaseKey uint64
	S       *sim.Source
	R       *sim.Router
	Res     *CaseResult
	KeepLog bool
}

// Violate records a violation.
func (c *Ctx) Violate(sig string, f string, a ...interface{}) {
	c.Res.Violations = append(c.Res.Violations, Violation{Sig: sig, Detail: fmt.Sprintf(f, a...)})
}

func (c *Ctx) Fault(kind string, n int) {
	if n == 0 {
		return
	}
	if c.Res.Faults == nil {
		c.Res.Faults = map[string]int{}
	}
	c.Res.Faults[kind] += n
}

func (c *Ctx) Probe(name string, n int) {
	if c.Res.Probes == nil {
		c.Res.Probes = map[string]int{}
	}
	c.Res.Probes[name] += n
}

// Absorb merges a world's counters into the case result.
func (c *Ctx) Absorb(n *sim.Net) {
	c.Res.Steps += n.Steps
	for k, v := range n.Faults {
		c.Fault(k, v)
	}
	for k, v := range n.Probes {
		c.Probe(k, v)
	}
	if c.KeepLog {
		c.Res.Log = append(c.Res.Log, n.Log...)
	}
}

// Label derives a DRBG label unique to (seed, case, parts...) but independent of worker assignment.
func (c *Ctx) Label(parts ...interface{}) string {
	s := fmt.Sprintf("%d|%s|%d", c.Seed, c.Prop, c.Case)
	for _, p := range parts {
		s += fmt.Sprintf("|%v", p)
	}
	return s
}

// PropDef describes one property's check.
type PropDef struct {
	ID          string
	Level       string // exploration | fault_enumeration
	Engine      string
	Cases       func(tier string) int
	Run         func(c *Ctx)
	Rule        string
	Assumptions []string
	RealStub    map[string][]string
	// CasesPerWorkerChunk lets expensive properties hand out work one case at a time.
	Expensive bool
	// External, when set, names the binary that executes this property's cases (worker protocol).
	External *External
	// Extra is called by the driver after all cases to add property-specific coverage keys.
	Extra func(agg map[string]interface{})
}

var registry = map[string]*PropDef{}

func Register(p *PropDef)    { registry[p.ID] = p }
func Get(id string) *PropDef { return registry[id] }
func IDs() []string {
	var out []string
	for k := range registry {
		out = append(out, k)
	}
	sort.Strings(out)
	return out
}

// External describes a worker binary other than the driver itself.
type External struct {
	Bin  string
	Args []string
	Env  string // environment variable carrying "worker,tier,seed" / "case,tier,seed,n" / "replay,path"
	// ExtraEnv is added to the worker's environment.
	ExtraEnv []string
}

package fw

import (
	"encoding/json"
	"fmt"
	"os"
	"runtime/debug"
	"strings"
	"time"

	"github.com/taurusgroup/multi-party-sig/verif/sim"
)

// InfraPanic is implemented by panic values that denote harness trouble.
type InfraPanic interface{ InfraMsg() string }

// RunCase executes one case of a property. replay, when non-nil, replaces the PRNG by recorded decisions.
func RunCase(p *PropDef, tier string, seed int64, caseNo int, replay []int, keepLog bool) (res *CaseResult) {
	r := sim.InstallRouter()
	r.ResetHarness(fmt.Sprintf("%d|%s|%d", seed, p.ID, caseNo))
	key := sim.CaseSeed(seed, p.ID, caseNo)
	var src *sim.Source
	if replay != nil {
		src = sim.NewReplaySource(replay)
	} else {
		src = sim.NewSource(key)
	}
	res = &CaseResult{Prop: p.ID, Case: caseNo}
	c := &Ctx{Prop: p.ID, Tier: tier, Seed: seed, Case: caseNo, CaseKey: key, S: src, R: r, Res: res, KeepLog: keepLog}
	func() {
		defer func() {
			if x := recover(); x != nil {
				st := string(debug.Stack())
				if ip, ok := x.(InfraPanic); ok {
					res.Infra = ip.InfraMsg()
					return
				}
				// a panic on the harness goroutine that originates in library code (e.g. a start
				// function or a codec called directly) is a finding; anything else is infrastructure.
				fn := sim.LibFrame(st)
				if strings.Contains(st, "taurusgroup/multi-party-sig/") && fn != "unknown" && !strings.HasPrefix(fn, "github.com/taurusgroup/multi-party-sig/verif") && libOrigin(st) {
					c.Violate("panic@"+fn, "library panicked on the calling goroutine: %v\n%s", x, trim(st, 5000))
					return
				}
				res.Infra = fmt.Sprintf("harness panic: %v\n%s", x, trim(st, 5000))
			}
		}()
		p.Run(c)
	}()
	r.Use(nil)
	res.Decisions = src.Values()
	res.TraceHash = src.TraceHash()
	if res.DistinctID == "" {
		res.DistinctID = res.TraceHash
	}
	return res
}

// libOrigin: the innermost non-runtime frame after panic() belongs to the library, not the harness.
func libOrigin(stack string) bool {
	lines := strings.Split(stack, "\n")
	seen := false
	for _, l := range lines {
		if strings.HasPrefix(l, "panic(") {
			seen = true
			continue
		}
		if !seen || strings.HasPrefix(l, "\t") || l == "" {
			continue
		}
		if strings.HasPrefix(l, "runtime.") || strings.HasPrefix(l, "reflect.") || strings.HasPrefix(l, "math/big.") || strings.HasPrefix(l, "encoding/") || strings.HasPrefix(l, "github.com/fxamacker") || strings.HasPrefix(l, "github.com/cronokirby") || strings.HasPrefix(l, "github.com/decred") || strings.HasPrefix(l, "bytes.") || strings.HasPrefix(l, "io.") {
			continue
		}
		return strings.Contains(l, "taurusgroup/multi-party-sig/") && !strings.Contains(l, "multi-party-sig/verif/")
	}
	return false
}

func trim(s string, n int) string {
	if len(s) > n {
		return s[:n]
	}
	return s
}

// hasSig reports whether res contains a violation with signature sig.
func hasSig(res *CaseResult, sig string) bool {
	for _, v := range res.Violations {
		if v.Sig == sig {
			return true
		}
	}
	return false
}

// Minimise shrinks the decision trace of a failing case while the same violation signature persists:
// (1) truncate the tail, (2) zero blocks of decreasing size, (3) zero single decisions. Time-boxed.
func Minimise(p *PropDef, tier string, seed int64, caseNo int, orig *CaseResult, sig string, budget time.Duration) (best []int, bestRes *CaseResult, runs int) {
	best = append([]int{}, orig.Decisions...)
	bestRes = orig
	deadline := time.Now().Add(budget)
	try := func(cand []int) bool {
		if time.Now().After(deadline) {
			return false
		}
		runs++
		r := RunCase(p, tier, seed, caseNo, cand, false)
		if r.Infra == "" && hasSig(r, sig) {
			// canonicalise: keep what was actually consumed
			best = trimZeros(r.Decisions)
			bestRes = r
			return true
		}
		return false
	}
	// first: replaying the recorded trace must reproduce
	if !try(best) {
		return orig.Decisions, orig, runs
	}
	for size := len(best) / 2; size >= 1; size /= 2 {
		for start := 0; start+size <= len(best); {
			allZero := true
			for _, v := range best[start : start+size] {
				if v != 0 {
					allZero = false
				}
			}
			if allZero {
				start += size
				continue
			}
			cand := append([]int{}, best...)
			for i := start; i < start+size && i < len(cand); i++ {
				cand[i] = 0
			}
			if !try(cand) {
				start += size
			}
			if time.Now().After(deadline) {
				return
			}
		}
	}
	// try decrementing remaining non-zero values
	for i := 0; i < len(best); i++ {
		if best[i] > 1 {
			cand := append([]int{}, best...)
			cand[i] = 1
			try(cand)
		}
		if time.Now().After(deadline) {
			return
		}
	}
	return
}

func trimZeros(v []int) []int {
	n := len(v)
	for n > 0 && v[n-1] == 0 {
		n--
	}
	return append([]int{}, v[:n]...)
}

// ReplayFile is the on-disk form of a violation.
type ReplayFile struct {
	Property  string   `json:"property"`
	Engine    string   `json:"engine"`
	Tier      string   `json:"tier"`
	Seed      int64    `json:"seed"`
	Case      int      `json:"case"`
	Signature string   `json:"signature"`
	Detail    string   `json:"detail"`
	Desc      string   `json:"scenario"`
	Decisions []int    `json:"decisions"`
	OrigLen   int      `json:"original_decisions"`
	MinRuns   int      `json:"minimisation_runs"`
	Log       []string `json:"log,omitempty"`
	Death     string   `json:"process_death,omitempty"`
}

func WriteReplay(dir string, rf *ReplayFile) (string, error) {
	if err := os.MkdirAll(dir, 0o755); err != nil {
		return "", err
	}
	name := fmt.Sprintf("%s/%s-seed%d-case%d-%s.json", dir, rf.Property, rf.Seed, rf.Case, sanitize(rf.Signature))
	b, _ := json.MarshalIndent(rf, "", " ")
	return name, os.WriteFile(name, b, 0o644)
}

func sanitize(s string) string {
	var b strings.Builder
	for _, r := range s {
		if (r >= 'a' && r <= 'z') || (r >= 'A' && r <= 'Z') || (r >= '0' && r <= '9') || r == '-' || r == '_' || r == '.' {
			b.WriteRune(r)
		} else {
			b.WriteByte('_')
		}
	}
	out := b.String()
	if len(out) > 80 {
		out = out[:80]
	}
	return out
}

package fw

import (
	"bufio"
	"encoding/json"
	"fmt"
	"os"
	"strconv"
	"strings"
	"time"
)

// WorkerLoop reads case numbers from stdin, one per line, and answers "S n" before and "R json"
// after each case (violations come with minimised replay files).
func WorkerLoop(p *PropDef, tier string, seed int64) {
	prop := p.ID
	in := bufio.NewScanner(os.Stdin)
	out := bufio.NewWriter(os.Stdout)
	minBudget := 45 * time.Second
	if tier == "thorough" {
		minBudget = 120 * time.Second
	}
	for in.Scan() {
		line := strings.TrimSpace(in.Text())
		if line == "" {
			continue
		}
		n, err := strconv.Atoi(line)
		if err != nil {
			continue
		}
		fmt.Fprintf(out, "S %d\n", n)
		out.Flush()
		res := RunCase(p, tier, seed, n, nil, false)
		type outT struct {
			*CaseResult
			Replays []*ReplayFile `json:"replays,omitempty"`
		}
		o := outT{CaseResult: res}
		// a watchdog verdict depends on wall-clock time and therefore on machine load: it is only a
		// CANDIDATE here; the driver re-executes the case alone, at the end, before it is reported
		hang := false
		for _, v := range res.Violations {
			if strings.HasPrefix(v.Sig, "hang") || strings.Contains(v.Sig, "/hang") {
				hang = true
			}
		}
		if hang {
			res.HangCandidate = true
			res.Violations = nil
		}
		if res.Infra == "" && len(res.Violations) > 0 {
			seen := map[string]bool{}
			for _, v := range res.Violations {
				if seen[v.Sig] {
					continue
				}
				seen[v.Sig] = true
				dec, mres, runs := Minimise(p, tier, seed, n, res, v.Sig, minBudget/time.Duration(len(res.Violations)))
				// final replay with log
				lres := RunCase(p, tier, seed, n, dec, true)
				detail := v.Detail
				for _, mv := range mres.Violations {
					if mv.Sig == v.Sig {
						detail = mv.Detail
					}
				}
				o.Replays = append(o.Replays, &ReplayFile{
					Property: prop, Engine: p.Engine, Tier: tier, Seed: seed, Case: n, Signature: v.Sig, Detail: detail,
					Desc: mres.Desc, Decisions: dec, OrigLen: len(res.Decisions), MinRuns: runs, Log: tailS(lres.Log, 200),
				})
			}
		}
		if len(res.Decisions) > 400 {
			res.Decisions = nil // keep the result line small; the trace hash stays
		}
		b, _ := json.Marshal(o)
		fmt.Fprintf(out, "R %s\n", b)
		out.Flush()
	}
}

func tailS(s []string, n int) []string {
	if len(s) > n {
		return s[len(s)-n:]
	}
	return s
}

// PrintCase runs one case and prints its result as JSON (fresh-process re-execution).
func PrintCase(p *PropDef, tier string, seed int64, n int) {
	res := RunCase(p, tier, seed, n, nil, true)
	b, _ := json.Marshal(res)
	fmt.Println(string(b))
}

// ReplayMain replays a replay file: exit 1 + VIOLATION line if the violation reproduces.
func ReplayMain(path string) int {
	b, err := os.ReadFile(path)
	if err != nil {
		fmt.Fprintln(os.Stderr, "INFRA:", err)
		return 2
	}
	var rf ReplayFile
	if err := json.Unmarshal(b, &rf); err != nil {
		fmt.Fprintln(os.Stderr, "INFRA:", err)
		return 2
	}
	p := Get(rf.Property)
	if p == nil {
		fmt.Fprintf(os.Stderr, "INFRA: unknown property %s\n", rf.Property)
		return 2
	}
	var dec []int
	if rf.Death == "" {
		dec = rf.Decisions
		if dec == nil {
			dec = []int{}
		}
	}
	res := RunCase(p, rf.Tier, rf.Seed, rf.Case, dec, true)
	if res.Infra != "" {
		fmt.Fprintln(os.Stderr, "INFRA:", res.Infra)
		return 2
	}
	for _, l := range tailS(res.Log, 80) {
		fmt.Println("  log:", l)
	}
	for _, v := range res.Violations {
		if v.Sig == rf.Signature {
			fmt.Printf("VIOLATION property=%s replay=%s\n  signature: %s\n  %s\n", rf.Property, path, v.Sig, firstLinesS(v.Detail, 12))
			return 1
		}
	}
	for _, v := range res.Violations {
		fmt.Printf("VIOLATION property=%s replay=%s\n  signature: %s (recorded: %s)\n  %s\n", rf.Property, path, v.Sig, rf.Signature, firstLinesS(v.Detail, 12))
		return 1
	}
	fmt.Printf("replay of %s: no violation (recorded signature %s)\n", path, rf.Signature)
	return 0
}

func firstLinesS(s string, n int) string {
	l := strings.Split(s, "\n")
	if len(l) > n {
		l = l[:n]
	}
	return strings.Join(l, "\n  ")
}

// PrintDigests runs cases [from,to) and prints one line per case with everything that must be a
// pure function of (seed, case#): used by the determinism self-test.
func PrintDigests(p *PropDef, tier string, seed int64, from, to int) {
	for n := from; n < to; n++ {
		r := RunCase(p, tier, seed, n, nil, false)
		var sigs []string
		for _, v := range r.Violations {
			sigs = append(sigs, v.Sig)
		}
		fk := make([]string, 0)
		for k, v := range r.Faults {
			fk = append(fk, fmt.Sprintf("%s=%d", k, v))
		}
		sortStrings(fk)
		pk := make([]string, 0)
		for k, v := range r.Probes {
			pk = append(pk, fmt.Sprintf("%s=%d", k, v))
		}
		sortStrings(pk)
		st := append([]string{}, r.States...)
		sortStrings(st)
		fmt.Printf("DIGEST case=%d trace=%s n=%d distinct=%q desc=%q nontrivial=%v steps=%d faults=%v probes=%v states=%d viol=%v infra=%q\n",
			n, r.TraceHash, len(r.Decisions), r.DistinctID, r.Desc, r.NonTrivial, r.Steps, fk, pk, len(st), sigs, r.Infra)
	}
}

func sortStrings(s []string) {
	for i := 1; i < len(s); i++ {
		for j := i; j > 0 && s[j] < s[j-1]; j-- {
			s[j], s[j-1] = s[j-1], s[j]
		}
	}
}

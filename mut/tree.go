// Package mut is the structure-aware, protocol-agnostic message mutator: it decodes a payload to a
// generic CBOR tree, enumerates field paths (descending into byte strings that are themselves
// encodings) and applies one operator at one path.
package mut

import (
	"bytes"
	"encoding/binary"
	"fmt"
	"sort"

	"github.com/fxamacker/cbor/v2"
)

var decMode cbor.DecMode
var encMode cbor.EncMode

func init() {
	var err error
	decMode, err = cbor.DecOptions{MaxNestedLevels: 64, MaxArrayElements: 1 << 20, MaxMapPairs: 1 << 20}.DecMode()
	if err != nil {
		panic(err)
	}
	encMode, err = cbor.EncOptions{Sort: cbor.SortBytewiseLexical}.EncMode()
	if err != nil {
		panic(err)
	}
}

// Blob is a byte string that is itself an encoding: Prefix bytes followed by CBOR of Inner.
type Blob struct {
	Prefix []byte
	Inner  interface{}
	// FixPrefix: when set and Prefix is 4 bytes and Inner has a "Coefficients" array, the prefix is
	// recomputed as the array length on encoding (coordinated mutation of polynomial degree).
	FixPrefix bool
}

// Null is an explicit CBOR null (distinct from "absent").
type Null struct{}

// Raw is pre-encoded CBOR spliced in verbatim.
type Raw []byte

// Decode parses CBOR into a generic tree with blob descent.
func Decode(data []byte) (interface{}, error) {
	var v interface{}
	if err := decMode.Unmarshal(data, &v); err != nil {
		return nil, err
	}
	return descend(v, 0), nil
}

func descend(v interface{}, depth int) interface{} {
	if depth > 12 {
		return v
	}
	switch t := v.(type) {
	case map[interface{}]interface{}:
		for k, x := range t {
			t[k] = descend(x, depth+1)
		}
		return t
	case []interface{}:
		for i, x := range t {
			t[i] = descend(x, depth+1)
		}
		return t
	case nil:
		return Null{}
	case []byte:
		for _, pre := range []int{0, 4} {
			if len(t) < pre+2 {
				continue
			}
			var inner interface{}
			rest := t[pre:]
			// must be a container to count as an encoding
			mt := rest[0] >> 5
			if mt != 4 && mt != 5 {
				continue
			}
			dec := decMode.NewDecoder(bytes.NewReader(rest))
			if err := dec.Decode(&inner); err != nil || dec.NumBytesRead() != len(rest) {
				continue
			}
			switch inner.(type) {
			case map[interface{}]interface{}, []interface{}:
				return &Blob{Prefix: append([]byte{}, t[:pre]...), Inner: descend(inner, depth+1)}
			}
		}
		return t
	}
	return v
}

// Encode serialises a tree.
func Encode(v interface{}) []byte {
	b, err := encMode.Marshal(prep(v))
	if err != nil {
		panic(fmt.Sprintf("mut: encode: %v", err))
	}
	return b
}

func prep(v interface{}) interface{} {
	switch t := v.(type) {
	case Null:
		return nil
	case Raw:
		return cbor.RawMessage(t)
	case *Blob:
		inner := Encode(t.Inner)
		pre := t.Prefix
		if t.FixPrefix && len(pre) == 4 {
			if m, ok := t.Inner.(map[interface{}]interface{}); ok {
				if arr, ok := m["Coefficients"].([]interface{}); ok {
					pre = make([]byte, 4)
					binary.BigEndian.PutUint32(pre, uint32(len(arr)))
				}
			}
		}
		return append(append([]byte{}, pre...), inner...)
	case map[interface{}]interface{}:
		out := make(map[interface{}]interface{}, len(t))
		for k, x := range t {
			out[k] = prep(x)
		}
		return out
	case []interface{}:
		out := make([]interface{}, len(t))
		for i, x := range t {
			out[i] = prep(x)
		}
		return out
	}
	return v
}

// Path addresses a node: string / int64 / uint64 map keys, int array indexes, "@blob" for blob descent.
type Path []interface{}

func (p Path) String() string {
	s := ""
	for _, e := range p {
		switch t := e.(type) {
		case int:
			s += fmt.Sprintf("[%d]", t)
		default:
			s += fmt.Sprintf(".%v", t)
		}
	}
	if s == "" {
		return "."
	}
	return s
}

// Class is the path with array indexes and party-id map keys abstracted (for signatures / coverage).
func (p Path) Class() string {
	s := ""
	for _, e := range p {
		switch t := e.(type) {
		case int:
			s += "[]"
		case string:
			if t == "@blob" || isFieldName(t) {
				s += "." + t
			} else {
				s += ".{id}"
			}
		default:
			s += ".{k}"
		}
	}
	if s == "" {
		return "."
	}
	return s
}

func isFieldName(s string) bool {
	if len(s) < 2 {
		return false
	}
	c := s[0]
	if !(c >= 'A' && c <= 'Z') {
		return false
	}
	for _, r := range s {
		if !((r >= 'a' && r <= 'z') || (r >= 'A' && r <= 'Z') || (r >= '0' && r <= '9') || r == '_') {
			return false
		}
	}
	return true
}

// Node describes one addressable node.
type Node struct {
	Path  Path
	Shape string // bytes33, bytes32, bytesN, blob, map, array, uint, int, text, bool, null, other
	Len   int
}

func shapeOf(v interface{}) (string, int) {
	switch t := v.(type) {
	case []byte:
		switch len(t) {
		case 33:
			return "bytes33", 33
		case 32:
			return "bytes32", 32
		}
		return "bytesN", len(t)
	case *Blob:
		return "blob", 0
	case map[interface{}]interface{}:
		return "map", len(t)
	case []interface{}:
		return "array", len(t)
	case uint64:
		return "uint", 0
	case int64:
		return "int", 0
	case string:
		return "text", len(t)
	case bool:
		return "bool", 0
	case Null:
		return "null", 0
	}
	return "other", 0
}

func sortedKeys(m map[interface{}]interface{}) []interface{} {
	keys := make([]interface{}, 0, len(m))
	for k := range m {
		keys = append(keys, k)
	}
	sort.Slice(keys, func(i, j int) bool {
		return fmt.Sprintf("%T%v", keys[i], keys[i]) < fmt.Sprintf("%T%v", keys[j], keys[j])
	})
	return keys
}

// Nodes enumerates every node in deterministic order (root first).
func Nodes(v interface{}) []Node {
	var out []Node
	var walk func(x interface{}, p Path)
	walk = func(x interface{}, p Path) {
		sh, l := shapeOf(x)
		out = append(out, Node{Path: append(Path{}, p...), Shape: sh, Len: l})
		switch t := x.(type) {
		case map[interface{}]interface{}:
			for _, k := range sortedKeys(t) {
				walk(t[k], append(p, k))
			}
		case []interface{}:
			for i, e := range t {
				walk(e, append(p, i))
			}
		case *Blob:
			walk(t.Inner, append(p, "@blob"))
		}
	}
	walk(v, nil)
	return out
}

// Get returns the node at path.
func Get(v interface{}, p Path) (interface{}, bool) {
	cur := v
	for _, e := range p {
		switch t := cur.(type) {
		case map[interface{}]interface{}:
			x, ok := t[e]
			if !ok {
				return nil, false
			}
			cur = x
		case []interface{}:
			i, ok := e.(int)
			if !ok || i < 0 || i >= len(t) {
				return nil, false
			}
			cur = t[i]
		case *Blob:
			if e != "@blob" {
				return nil, false
			}
			cur = t.Inner
		default:
			return nil, false
		}
	}
	return cur, true
}

// Set replaces the node at path (root replacement returns the new root).
func Set(v interface{}, p Path, nv interface{}) interface{} {
	if len(p) == 0 {
		return nv
	}
	parent, ok := Get(v, p[:len(p)-1])
	if !ok {
		return v
	}
	last := p[len(p)-1]
	switch t := parent.(type) {
	case map[interface{}]interface{}:
		t[last] = nv
	case []interface{}:
		if i, ok := last.(int); ok && i >= 0 && i < len(t) {
			t[i] = nv
		}
	case *Blob:
		t.Inner = nv
	}
	return v
}

// Delete removes the node at path from its parent (map entry or array element).
func Delete(v interface{}, p Path) (interface{}, bool) {
	if len(p) == 0 {
		return v, false
	}
	parent, ok := Get(v, p[:len(p)-1])
	if !ok {
		return v, false
	}
	last := p[len(p)-1]
	switch t := parent.(type) {
	case map[interface{}]interface{}:
		delete(t, last)
		return v, true
	case []interface{}:
		i, ok := last.(int)
		if !ok || i < 0 || i >= len(t) {
			return v, false
		}
		nt := append(append([]interface{}{}, t[:i]...), t[i+1:]...)
		return Set(v, p[:len(p)-1], nt), true
	}
	return v, false
}

// Clone deep-copies a tree.
func Clone(v interface{}) interface{} {
	switch t := v.(type) {
	case map[interface{}]interface{}:
		out := make(map[interface{}]interface{}, len(t))
		for k, x := range t {
			out[k] = Clone(x)
		}
		return out
	case []interface{}:
		out := make([]interface{}, len(t))
		for i, x := range t {
			out[i] = Clone(x)
		}
		return out
	case []byte:
		return append([]byte{}, t...)
	case *Blob:
		return &Blob{Prefix: append([]byte{}, t.Prefix...), Inner: Clone(t.Inner), FixPrefix: t.FixPrefix}
	case Raw:
		return append(Raw{}, t...)
	}
	return v
}

// Equal compares encodings.
func Equal(a, b interface{}) bool { return bytes.Equal(Encode(a), Encode(b)) }

package mut

import (
	"bytes"
	"encoding/hex"
	"fmt"
	"math/big"

	"github.com/taurusgroup/multi-party-sig/verif/sim"
)

// BankEntry is a previously seen payload (any sender, any session) available for "copy from another message".
type BankEntry struct {
	Origin string // e.g. "same-session other-recipient", "twin", "foreign"
	From   string
	To     string
	Round  int
	Bcast  bool
	Tree   interface{}
	Data   []byte
}

// Result describes an applied mutation.
type Result struct {
	Op    string
	Path  Path
	Shape string
	Note  string
}

func (r Result) String() string {
	return fmt.Sprintf("%s@%s(%s)%s", r.Op, r.Path, r.Shape, r.Note)
}

var (
	gBytes, _    = hex.DecodeString("0279BE667EF9DCBBAC55A06295CE870B07029BFCDB2DCE28D959F2815B16F81798")
	qBytes, _    = hex.DecodeString("FFFFFFFFFFFFFFFFFFFFFFFFFFFFFFFEBAAEDCE6AF48A03BBFD25E8CD0364141")
	pBytes, _    = hex.DecodeString("FFFFFFFFFFFFFFFFFFFFFFFFFFFFFFFFFFFFFFFFFFFFFFFFFFFFFFFEFFFFFC2F")
	twoGBytes, _ = hex.DecodeString("02C6047F9441ED7D6D3045406E95C07CD85C778E4B8CEF3CA7ABAC09B95C709EE5")
)

func be(x *big.Int, n int) []byte {
	b := make([]byte, n)
	x.FillBytes(b)
	return b
}

// SemanticOps: alterations that keep the message well-formed-looking (C03/C04 catalogue).
var SemanticOps = []string{
	"bitflip", "plus1", "minus1", "zero-same-length", "boundary", "copy-from-bank", "swap-siblings",
	"drop", "null", "zero-length", "array-remove-last", "array-dup-last", "negate-point", "random-same-length",
	"negate-scalar",
}

// MalformOps: structural malformations (C05 catalogue).
var MalformOps = []string{
	"drop", "null", "zero-length", "type-uint", "type-negint", "type-text", "type-bytes", "type-array", "type-map", "type-bool",
	"type-float", "huge-bytes", "deep-nesting", "blob-prefix-huge", "blob-prefix-zero", "blob-truncate", "array-grow", "dup-map-key",
	"indefinite", "huge-declared-length", "truncate-1", "extend-1", "boundary", "bitflip", "zero-same-length", "array-remove-last",
}

// Applicable reports whether op can apply to a node of this shape.
func Applicable(op string, n Node) bool {
	isBytes := n.Shape == "bytes33" || n.Shape == "bytes32" || n.Shape == "bytesN"
	switch op {
	case "bitflip", "plus1", "minus1", "zero-same-length", "random-same-length", "truncate-1", "extend-1":
		return isBytes && n.Len > 0
	case "negate-point":
		return n.Shape == "bytes33"
	case "negate-scalar":
		return n.Shape == "bytes32"
	case "boundary":
		return isBytes || n.Shape == "uint" || n.Shape == "int"
	case "copy-from-bank":
		return len(n.Path) > 0
	case "swap-siblings":
		return len(n.Path) > 0
	case "drop":
		return len(n.Path) > 0 && n.Path[len(n.Path)-1] != "@blob"
	case "null":
		return n.Shape != "null"
	case "zero-length":
		return (isBytes && n.Len > 0) || ((n.Shape == "array" || n.Shape == "map" || n.Shape == "text") && n.Len > 0)
	case "array-remove-last", "array-dup-last", "array-dup-elem", "array-grow":
		return n.Shape == "array" && n.Len > 0
	case "blob-prefix-huge", "blob-prefix-zero", "blob-truncate":
		return n.Shape == "blob"
	case "dup-map-key":
		return n.Shape == "map" && n.Len > 0
	case "indefinite":
		return isBytes || n.Shape == "array" || n.Shape == "map"
	}
	return true // type-* / huge / nesting apply anywhere
}

// Apply applies op at node n of tree (in place on a clone the caller made). ok=false when the
// operator turned out not to change anything.
func Apply(s *sim.Source, tree interface{}, n Node, op string, bank []BankEntry) (out interface{}, res Result, ok bool) {
	res = Result{Op: op, Path: n.Path, Shape: n.Shape}
	cur, _ := Get(tree, n.Path)
	orig := Encode(cur)
	set := func(v interface{}) (interface{}, Result, bool) {
		if bytes.Equal(Encode(v), orig) {
			return tree, res, false
		}
		return Set(tree, n.Path, v), res, true
	}
	b, _ := cur.([]byte)
	switch op {
	case "bitflip":
		nb := append([]byte{}, b...)
		pos := s.Draw(len(nb)*8, "bit")
		nb[pos/8] ^= 1 << uint(pos%8)
		res.Note = fmt.Sprintf(" bit %d", pos)
		return set(nb)
	case "plus1", "minus1":
		x := new(big.Int).SetBytes(b)
		if op == "plus1" {
			x.Add(x, big.NewInt(1))
		} else {
			x.Sub(x, big.NewInt(1))
			if x.Sign() < 0 {
				x.SetInt64(0)
			}
		}
		if len(x.Bytes()) > len(b) {
			return set(x.Bytes())
		}
		return set(be(x, len(b)))
	case "zero-same-length":
		return set(make([]byte, len(b)))
	case "random-same-length":
		nb := make([]byte, len(b))
		for i := range nb {
			nb[i] = byte(s.Draw(256, "rnd"))
			if i >= 8 { // cheap: first bytes drawn, rest derived
				nb[i] = nb[i%8] ^ byte(i*37)
			}
		}
		if n.Shape == "bytes33" {
			nb[0] = 2 + nb[0]&1
		}
		return set(nb)
	case "truncate-1":
		return set(append([]byte{}, b[:len(b)-1]...))
	case "extend-1":
		return set(append(append([]byte{}, b...), byte(s.Draw(256, "ext"))))
	case "negate-point":
		nb := append([]byte{}, b...)
		nb[0] ^= 1
		return set(nb)
	case "negate-scalar":
		// q - x: the exact negation of a scalar (x*G and (q-x)*G differ in the sign of y only)
		x := new(big.Int).SetBytes(b)
		q := new(big.Int).SetBytes(qBytes)
		x.Mod(x, q)
		if x.Sign() == 0 {
			return tree, res, false
		}
		return set(be(new(big.Int).Sub(q, x), 32))
	case "boundary":
		switch n.Shape {
		case "bytes33":
			opts := [][]byte{gBytes, twoGBytes, append([]byte{2}, make([]byte, 32)...), make([]byte, 33), append([]byte{2}, pBytes...), append([]byte{4}, b[1:]...), append([]byte{0}, b[1:]...)}
			k := s.Draw(len(opts), "boundary33")
			res.Note = fmt.Sprintf(" #%d", k)
			return set(opts[k])
		case "bytes32":
			one := be(big.NewInt(1), 32)
			qm1 := be(new(big.Int).Sub(new(big.Int).SetBytes(qBytes), big.NewInt(1)), 32)
			qp1 := be(new(big.Int).Add(new(big.Int).SetBytes(qBytes), big.NewInt(1)), 32)
			opts := [][]byte{make([]byte, 32), one, qm1, qBytes, qp1, bytes.Repeat([]byte{0xff}, 32)}
			k := s.Draw(len(opts), "boundary32")
			res.Note = fmt.Sprintf(" #%d", k)
			return set(opts[k])
		case "bytesN":
			var signFlip []byte
			if len(b) > 0 {
				signFlip = append([]byte{b[0] ^ 1}, b[1:]...)
			}
			opts := [][]byte{{}, {0}, {1}, bytes.Repeat([]byte{0xff}, len(b)), append(append([]byte{}, b...), b...), append([]byte{}, b[:len(b)/2]...), signFlip, append([]byte{1}, make([]byte, len(b))...)}
			k := s.Draw(len(opts), "boundaryN")
			res.Note = fmt.Sprintf(" #%d", k)
			if opts[k] == nil {
				return tree, res, false
			}
			return set(opts[k])
		case "uint", "int":
			opts := []interface{}{uint64(0), uint64(1), uint64(0xffff), uint64(0xffffffff), uint64(0xffffffffffffffff), int64(-1)}
			// the neighbours of the present value: off-by-one bounds (a threshold of exactly n, a round of final+1)
			if u, isU := cur.(uint64); isU {
				opts = append(opts, u+1, u+2)
				if u > 0 {
					opts = append(opts, u-1)
				}
			}
			k := s.Draw(len(opts), "boundaryI")
			res.Note = fmt.Sprintf(" ->%v", opts[k])
			return set(opts[k])
		}
	case "drop":
		nt, did := Delete(tree, n.Path)
		return nt, res, did
	case "null":
		return set(Null{})
	case "zero-length":
		switch n.Shape {
		case "array":
			return set([]interface{}{})
		case "map":
			return set(map[interface{}]interface{}{})
		case "text":
			return set("")
		}
		return set([]byte{})
	case "array-remove-last", "array-dup-last", "array-dup-elem", "array-grow":
		arr := cur.([]interface{})
		var na []interface{}
		switch op {
		case "array-remove-last":
			na = append([]interface{}{}, arr[:len(arr)-1]...)
		case "array-dup-last":
			na = append(append([]interface{}{}, arr...), Clone(arr[len(arr)-1]))
		case "array-dup-elem":
			// any one element a second time (appended, so that the copy is the later occurrence)
			na = append(append([]interface{}{}, arr...), Clone(arr[s.Draw(len(arr), "dup-elem")]))
		case "array-grow":
			na = append([]interface{}{}, arr...)
			for i := 0; i < 5000; i++ {
				na = append(na, arr[len(arr)-1])
			}
		}
		tree = Set(tree, n.Path, na)
		// coordinated prefix fix-up of an enclosing length-prefixed blob, drawn
		for i := len(n.Path) - 1; i >= 0; i-- {
			if n.Path[i] == "@blob" {
				if bl, ok := Get(tree, n.Path[:i]); ok {
					if blob, ok := bl.(*Blob); ok && len(blob.Prefix) == 4 && s.Draw(2, "fix-prefix") == 1 {
						blob.FixPrefix = true
						res.Note = " +prefix-fixed"
					}
				}
				break
			}
		}
		return tree, res, true
	case "copy-from-bank":
		// same path in another banked message with the same shape but a different value
		var cands []int
		for i, e := range bank {
			if v, ok := Get(e.Tree, n.Path); ok {
				if sh, _ := shapeOf(v); sh == n.Shape && !bytes.Equal(Encode(v), orig) {
					cands = append(cands, i)
				}
			}
		}
		if len(cands) == 0 {
			// fall back: any node of the same shape elsewhere in the bank
			for i, e := range bank {
				for _, bn := range Nodes(e.Tree) {
					if bn.Shape == n.Shape && bn.Len == n.Len {
						v, _ := Get(e.Tree, bn.Path)
						if !bytes.Equal(Encode(v), orig) {
							cands = append(cands, i)
							break
						}
					}
				}
				if len(cands) >= 8 {
					break
				}
			}
			if len(cands) == 0 {
				return tree, res, false
			}
			e := bank[cands[s.Draw(len(cands), "bank")]]
			for _, bn := range Nodes(e.Tree) {
				if bn.Shape == n.Shape && bn.Len == n.Len {
					v, _ := Get(e.Tree, bn.Path)
					if !bytes.Equal(Encode(v), orig) {
						res.Note = fmt.Sprintf(" <- %s r%d %s (other path)", e.Origin, e.Round, bn.Path)
						return set(Clone(v))
					}
				}
			}
			return tree, res, false
		}
		e := bank[cands[s.Draw(len(cands), "bank")]]
		v, _ := Get(e.Tree, n.Path)
		res.Note = fmt.Sprintf(" <- %s from=%s to=%s r%d", e.Origin, e.From, e.To, e.Round)
		return set(Clone(v))
	case "swap-siblings":
		parentPath := n.Path[:len(n.Path)-1]
		parent, _ := Get(tree, parentPath)
		var sibs []Path
		switch t := parent.(type) {
		case map[interface{}]interface{}:
			for _, k := range sortedKeys(t) {
				if k == n.Path[len(n.Path)-1] {
					continue
				}
				if sh, _ := shapeOf(t[k]); sh == n.Shape && !bytes.Equal(Encode(t[k]), orig) {
					sibs = append(sibs, append(append(Path{}, parentPath...), k))
				}
			}
		case []interface{}:
			for i := range t {
				if i == n.Path[len(n.Path)-1] {
					continue
				}
				if sh, _ := shapeOf(t[i]); sh == n.Shape && !bytes.Equal(Encode(t[i]), orig) {
					sibs = append(sibs, append(append(Path{}, parentPath...), i))
				}
			}
		}
		if len(sibs) == 0 {
			return tree, res, false
		}
		sp := sibs[s.Draw(len(sibs), "sibling")]
		other, _ := Get(tree, sp)
		tree = Set(tree, sp, cur)
		tree = Set(tree, n.Path, other)
		res.Note = " <-> " + sp.String()
		return tree, res, true
	// ---- structural malformations ----
	case "type-uint":
		return set(uint64(s.Draw(3, "tu")) * 0x7fffffff)
	case "type-negint":
		return set(int64(-1 - s.Draw(2, "tn")*1000000))
	case "type-text":
		return set("text")
	case "type-bytes":
		return set([]byte{1, 2, 3})
	case "type-array":
		return set([]interface{}{uint64(1), []byte{2}})
	case "type-map":
		return set(map[interface{}]interface{}{"A": uint64(1)})
	case "type-bool":
		return set(true)
	case "type-float":
		return set(Raw{0xfb, 0x40, 0x09, 0x21, 0xfb, 0x54, 0x44, 0x2d, 0x18})
	case "huge-bytes":
		return set(make([]byte, 1<<20))
	case "deep-nesting":
		raw := bytes.Repeat([]byte{0x81}, 40)
		raw = append(raw, 0x00)
		return set(Raw(raw))
	case "blob-prefix-huge":
		bl := cur.(*Blob)
		nb := Clone(bl).(*Blob)
		if len(nb.Prefix) == 4 {
			nb.Prefix = []byte{0xff, 0xff, 0xff, 0xf0}
		} else {
			nb.Prefix = []byte{0x7f, 0xff, 0xff, 0xff}
		}
		return set(nb)
	case "blob-prefix-zero":
		nb := Clone(cur).(*Blob)
		if len(nb.Prefix) != 4 {
			return tree, res, false
		}
		nb.Prefix = []byte{0, 0, 0, 0}
		return set(nb)
	case "blob-truncate":
		enc := prep(cur).([]byte)
		k := s.Draw(4, "blobtrunc")
		if k > len(enc) {
			k = len(enc)
		}
		return set(append([]byte{}, enc[:k]...))
	case "dup-map-key":
		m := cur.(map[interface{}]interface{})
		keys := sortedKeys(m)
		k := keys[s.Draw(len(keys), "dupkey")]
		// hand-encode: map of len+1 with key k twice
		var raw []byte
		nn := len(m) + 1
		if nn < 24 {
			raw = append(raw, 0xa0|byte(nn))
		} else {
			raw = append(raw, 0xb8, byte(nn))
		}
		for _, kk := range keys {
			raw = append(raw, Encode(kk)...)
			raw = append(raw, Encode(m[kk])...)
		}
		raw = append(raw, Encode(k)...)
		raw = append(raw, Encode(m[k])...)
		return set(Raw(raw))
	case "indefinite":
		switch t := cur.(type) {
		case []byte:
			raw := []byte{0x5f}
			raw = append(raw, Encode(t[:len(t)/2])...)
			raw = append(raw, Encode(t[len(t)/2:])...)
			raw = append(raw, 0xff)
			return set(Raw(raw))
		case []interface{}:
			raw := []byte{0x9f}
			for _, e := range t {
				raw = append(raw, Encode(e)...)
			}
			raw = append(raw, 0xff)
			return set(Raw(raw))
		case map[interface{}]interface{}:
			raw := []byte{0xbf}
			for _, k := range sortedKeys(t) {
				raw = append(raw, Encode(k)...)
				raw = append(raw, Encode(t[k])...)
			}
			raw = append(raw, 0xff)
			return set(Raw(raw))
		}
	case "huge-declared-length":
		// a byte string / array header claiming 2^32-1 or 2^40 elements with nothing behind it;
		// only valid as the LAST thing in the payload, so it replaces the root's tail: emit as Raw.
		opts := []Raw{{0x5a, 0xff, 0xff, 0xff, 0xff}, {0x9a, 0x7f, 0xff, 0xff, 0xff}, {0xba, 0x7f, 0xff, 0xff, 0xff}, {0x5b, 0, 0, 0x01, 0, 0, 0, 0, 0}}
		return set(opts[s.Draw(len(opts), "hdl")])
	}
	return tree, res, false
}

// PickNode chooses the node an operator is applied to. Nodes are grouped by path class (so that a
// 600-element array weighs as much as a single field, not 600 times more), and inside a group the
// first and last elements get half of the probability mass (off-by-one and "position 0" slips live there).
func PickNode(s *sim.Source, nodes []Node) Node {
	if len(nodes) == 1 {
		return nodes[0]
	}
	var classes []string
	groups := map[string][]Node{}
	for _, n := range nodes {
		c := n.Path.Class()
		if _, ok := groups[c]; !ok {
			classes = append(classes, c)
		}
		groups[c] = append(groups[c], n)
	}
	g := groups[classes[s.Draw(len(classes), "path-class")]]
	if len(g) == 1 {
		return g[0]
	}
	if s.Draw(2, "path-edge") == 1 {
		if s.Draw(2, "path-first-or-last") == 0 {
			return g[0]
		}
		return g[len(g)-1]
	}
	return g[s.Draw(len(g), "path")]
}
